#!/usr/bin/env python3
"""Must-fail / must-pass self test of the checks.

selftest/mutants/<name>.json : {"props": ["C08"], "file": "internal/upload/upload.go",
                                "old": "...", "new": "...", "expect": "obligation substring (optional)"}
Each mutant is applied to /repo's working tree (text replacement), the listed checks are run and must
print a VIOLATION line (exit 1); the tree is restored with git checkout afterwards.
selftest/benign/<name>.json: same format, the checks must exit 0 with no VIOLATION line.
"""
import json, glob, subprocess, sys, os
REPO = os.environ.get("VERIF_REPO", "/repo")
def run(cmd):
    p = subprocess.run(cmd, shell=True, capture_output=True, text=True)
    return p.returncode, p.stdout + p.stderr
def restore():
    run(f"git -C {REPO} checkout -- .")
def apply(m):
    path = os.path.join(REPO, m["file"])
    s = open(path).read()
    if m["old"] not in s:
        return False
    open(path, "w").write(s.replace(m["old"], m["new"], 1))
    return True
def main():
    args = sys.argv[1:]
    report = None
    if "--json" in args:
        i = args.index("--json"); report = args[i+1]; del args[i:i+2]
    lenient = os.environ.get("SELFTEST_LENIENT") == "1"
    only = args
    skipped = []
    rc, st = run(f"git -C {REPO} status --porcelain")
    if st.strip():
        print("refusing: /repo has uncommitted changes"); sys.exit(2)
    killed = survived = 0
    bad = []
    import time
    t_start = time.time()
    budget = float(os.environ.get("SELFTEST_BUDGET_S", "0") or 0)
    not_run = []
    for kind in ("mutants", "benign"):
        for f in sorted(glob.glob(f"/verif/selftest/{kind}/*.json")):
            name = os.path.basename(f)[:-5]
            m = json.load(open(f))
            if only and not any(o in name or o in m["props"] for o in only):
                continue
            if budget and time.time() - t_start > budget:
                not_run.append(name)
                continue
            try:
                if not apply(m):
                    print(f"{kind}/{name}: NOT APPLICABLE (text not found)")
                    if lenient: skipped.append(name)
                    else: bad.append(name)
                    continue
                sub = "godev" if m["file"].startswith("godev/") else "."
                rc, out = run(f"cd {REPO}/{sub} && go build ./... 2>&1 | head -3")
                if out.strip():
                    print(f"{kind}/{name}: does not build: {out.strip()[:200]}"); bad.append(name); continue
                verdicts = []
                for p in m["props"]:
                    rc, out = run(f"cd /verif && GOVC_EVIDENCE_DIR=/verif/work/selftest_evidence ${{GOVC_BIN:-bin/govc}} check -prop {p}")
                    viol = [l for l in out.split("\n") if l.startswith("VIOLATION")]
                    verdicts.append((p, rc, viol, out))
                if kind == "mutants":
                    # the obligation that failed is named on the FAILED-OBLIGATION line printed before each VIOLATION line
                    ok = any(v[2] and (not m.get("expect") or any(m["expect"] in l for l in v[3].split("\n") if l.startswith("FAILED-OBLIGATION"))) for v in verdicts)
                    print(f"mutants/{name}: {'KILLED' if ok else 'SURVIVED'}  " + "; ".join(f"{p}: exit {rc}, {len(v)} violation(s)" for p, rc, v, _ in verdicts))
                    if ok: killed += 1
                    else:
                        survived += 1; bad.append(name)
                        for p, rc, v, out in verdicts:
                            print("    " + "\n    ".join(out.strip().split("\n")[-4:]))
                else:
                    ok = all(rc == 0 and not v for _, rc, v, _ in verdicts)
                    print(f"benign/{name}: {'PASSED' if ok else 'ALARM'}  " + "; ".join(f"{p}: exit {rc}" for p, rc, v, _ in verdicts))
                    if not ok:
                        bad.append(name)
                        for p, rc, v, out in verdicts:
                            print("    " + "\n    ".join(out.strip().split("\n")[-4:]))
            finally:
                restore()
    print(f"killed={killed} survived={survived} problems={bad}" + (f" not-run-within-budget={len(not_run)}" if not_run else ""))
    if report:
        json.dump({"mutants_killed": killed, "mutants_survived": survived, "problems": bad, "not_applicable_on_this_tree": skipped,
                   "not_run_within_time_budget": not_run, "time_budget_s": budget}, open(report, "w"), indent=1)
    sys.exit(1 if bad else 0)
main()
