#!/usr/bin/env python3
# Regenerates MANIFEST.json from props/*.json + manifest_meta.json (development helper).
import json,glob,os
os.chdir('/verif')
props=[json.loads(l) for l in open('properties.jsonl')]
meta=json.load(open('manifest_meta.json'))
checks=[]
claimed=set()
for p in props:
    pid=p['id']
    if pid in meta['checks'] and os.path.exists('props/%s.json'%pid):
        m=meta['checks'][pid]
        spec=json.load(open('props/%s.json'%pid))
        claimed.add(pid)
        checks.append({
         "property_id":pid,
         "quick_cmd":"bin/govc check -prop %s -tier quick"%pid,
         "thorough_cmd":"bash tools_thorough.sh %s"%pid,
         "evidence_file":"/verif/evidence/%s.json"%pid,
         "replay_cmd_template":"bin/govc replay {path}",
         "engine":"govc",
         "level_claimed":{"category":"proof","text":m['text'],"design_ref":m.get('design_ref','DESIGN.md section 12.3 (as built) and section 7 '+pid)},
         "level_note":"NOT DECIDED: "+"; ".join(spec.get('not_decided',[]))+" | ASSUMED: "+"; ".join(spec.get('assumptions',[]))+" | plus the trusted base listed in the evidence file (go/ssa lowering, SMT solvers, amd64, single thread, assumed library contracts)",
         "technique":m.get('technique',"contract-based deductive verification: VCs generated from go/ssa of /repo under //@ contracts, discharged by z3/cvc5")})
na=[{"property_id":p['id'],"reason":meta['not_applicable'].get(p['id'],"check not built yet (engine under construction); see DESIGN.md section 7")} for p in props if p['id'] not in claimed]
man={"version":1,
 "setup_cmd":"cd /verif/govc && GOFLAGS=-mod=vendor GOPROXY=off GOSUMDB=off GOTOOLCHAIN=local go build -o /verif/bin/govc .",
 "hooks":{"guard":"verif","enable":"contracts live in <pkg>/zz_verif_spec.go files under '//go:build verif' (comments + pure spec functions only); govc loads packages with -tags=verif",
   "baseline_off_cmd":"cd /repo && go test -vet=off -count=1 ./... && cd /repo/godev && go test -vet=off -count=1 ./...",
   "source_commits":meta['hook_commits'],"add_only":True},
 "engines":[{"name":"govc","path":"/verif/govc","serves_properties":sorted(claimed),"kind_free_text":"self-built deductive verifier for Go: weakest-precondition style VC generation over go/ssa (x/tools v0.29.0, NaiveForm) with //@ contracts, loop invariants, ghost state; z3 4.8.12 / z3 5.1.0 / cvc5 1.0 raced per obligation"}],
 "checks":checks,"not_applicable":na,
 "notes":"Contract-based deductive verification of the real code; see DESIGN.md. Exit 0 = all claimed obligations discharged (KNOWN-FINDING lines allowed); 1 = VIOLATION (a claimed obligation fails, or can no longer be established from the current source: the VIOLATION line then ends with no-failing-input-found); 2 = the check could not do its job (tree does not type-check, vacuity guard, solver disagreement)."}
json.dump(man,open('MANIFEST.json','w'),indent=1)
print("checks:",sorted(claimed))
