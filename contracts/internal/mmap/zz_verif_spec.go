// Copyright 2024 The Go Authors. All rights reserved.
// Use of this source code is governed by a BSD-style
// license that can be found in the LICENSE file.

//go:build verif

// Contracts (//@ lines) for package mmap; compiled only with -tags verif.

package mmap

// Mmap maps the whole file. The size of the mapping is the size Stat reports
// at that moment, which is at least every size observed earlier on the same
// descriptor ($minsize, see package counter). Counter files are smaller than
// 4 GiB (scoping assumption of the 32-bit offsets in the format).

//@ ghost minsize int

// The descriptor a Data was created with never changes.
//@ field-constraint Data.f: new == old

// SpecValid is the representation invariant of a Data that Mmap returned.
func SpecValid(d *Data) bool { return d != nil && d.f != nil }

//@ contract Mmap
//@   inline

//@ contract Munmap
//@   inline

//@ contract mmapFile
//@   requires f != nil
//@   ensures result1 == nil ==> SpecValid(result0) && fresh(result0) && len(result0.Data) >= $minsize
//@   ensures result1 == nil ==> len(result0.Data) == 0 || fresh(result0.Data)
//@   ensures result1 == nil ==> $minsize >= old($minsize)
//@   ensures result1 == nil ==> len(result0.Data) < 1<<32
//@   ensures result1 != nil ==> result0 == nil
//@   modifies $minsize

//@ contract munmapFile
//@   requires SpecValid(d)
//@   modifies nothing
