// Copyright 2024 The Go Authors. All rights reserved.
// Use of this source code is governed by a BSD-style
// license that can be found in the LICENSE file.

//go:build verif

// Contracts (//@ lines) for package config; compiled only with -tags verif.

package config

//@ contract set
//@   modifies nothing

//@ contract Expand
//@   modifies nothing

//@ contract NewConfig
//@   requires cfg != nil
//@   requires forall i int :: 0 <= i && i < len(cfg.Programs) ==> cfg.Programs[i] != nil
//@   ensures result != nil && fresh(result)
//@   ensures result.UploadConfig == cfg
//@   modifies nothing

//@ contract (*Config).HasProgram
//@   modifies nothing
//@ contract (*Config).HasGOOS
//@   modifies nothing
//@ contract (*Config).HasGOARCH
//@   modifies nothing
//@ contract (*Config).HasGoVersion
//@   modifies nothing
//@ contract (*Config).HasVersion
//@   modifies nothing
//@ contract (*Config).HasCounter
//@   modifies nothing
//@ contract (*Config).HasCounterPrefix
//@   modifies nothing
//@ contract (*Config).HasStack
//@   modifies nothing
//@ contract (*Config).Rate
//@   modifies nothing
