package main

// Symbolic values: Go-side structure over SMT terms.

import (
	"fmt"
	"go/types"
	"strings"

	"golang.org/x/tools/go/ssa"
)

type Value interface{}

// Scalar: ints (BV), bool, string (Str), float, time.Time (Time), map/chan/func/unsafe.Pointer refs.
type Scalar struct{ T *Term }

type StructV struct {
	Typ types.Type // named or struct type
	F   []Value
}

type SliceV struct {
	Ref, Off, Len, Cap *Term
	Elem               types.Type
}

const (
	KObj   = iota // pointer to heap object (or opaque): Ref
	KElem         // pointer into a slice backing array
	KLocal        // pointer to a local cell (or a sub-field of it)
	KField        // pointer to a field of a heap object
	KGlobal       // pointer to (a field of) a package-level variable
)

type PtrV struct {
	Kind int
	Elem types.Type // pointee type
	Null *Term      // Bool: pointer is nil
	Ref  *Term      // KObj: object ref; KField: root ref
	// KElem
	Arr, Idx *Term
	ArrElem  types.Type // element type of the backing array (for reinterpreting casts)
	End      *Term      // KElem from a slice: offset+len of that slice in the backing array (nil if unknown)
	// KLocal
	Cell *Cell
	// KLocal/KField/KGlobal
	Path  []int
	RootT types.Type // KField: type of the root object; KLocal: cell type; KGlobal: variable type
	GKey  string     // KGlobal: heap key of the package-level variable
	AIdx  *Term      // optional: index into an array located at Path
	NonNilGlobal bool
}

type MapV struct {
	Ref  *Term
	K, V types.Type
}

type IfaceV struct {
	Ref  *Term
	Dyn  Value      // statically known dynamic value (optional)
	DynT types.Type // statically known dynamic type (optional)
}

type FuncV struct {
	Fn       *ssa.Function // nil: unknown
	Bindings []Value
	Ref      *Term
	// bound method closure
	Recv Value
}

type TupleV []Value

type ArrayV struct {
	A    *Term // Array BV64 -> leaf sort (single-leaf element types)
	N    int64
	Elem types.Type
	Vals []Value // small arrays of multi-leaf elements: one value per element (constant indices only)
}

func multiLeafArray(u *types.Array) bool {
	if u.Len() == 0 || u.Len() > 16 {
		return false
	}
	if _, ok := scalarSort(u.Elem()); ok {
		return false
	}
	switch u.Elem().Underlying().(type) {
	case *types.Pointer, *types.Map, *types.Interface, *types.Signature:
		return false
	}
	return true
}

type Cell struct {
	Name string
	Typ  types.Type
	id   int
}

var cellCounter int

func NewCell(name string, t types.Type) *Cell {
	cellCounter++
	return &Cell{Name: name, Typ: t, id: cellCounter}
}

// ---- type classification

func isTimeType(t types.Type) bool {
	if n, ok := t.(*types.Named); ok {
		o := n.Obj()
		return o.Pkg() != nil && o.Pkg().Path() == "time" && o.Name() == "Time"
	}
	return false
}

func intInfo(t types.Type) (w int, signed bool, ok bool) {
	b, isB := t.Underlying().(*types.Basic)
	if !isB {
		return 0, false, false
	}
	switch b.Kind() {
	case types.Int8:
		return 8, true, true
	case types.Int16:
		return 16, true, true
	case types.Int32:
		return 32, true, true
	case types.Int64, types.Int:
		return 64, true, true
	case types.Uint8:
		return 8, false, true
	case types.Uint16:
		return 16, false, true
	case types.Uint32:
		return 32, false, true
	case types.Uint64, types.Uint, types.Uintptr:
		return 64, false, true
	case types.UntypedInt, types.UntypedRune:
		return 64, true, true
	}
	return 0, false, false
}

func isString(t types.Type) bool {
	b, ok := t.Underlying().(*types.Basic)
	return ok && b.Info()&types.IsString != 0
}
func isBool(t types.Type) bool {
	b, ok := t.Underlying().(*types.Basic)
	return ok && b.Info()&types.IsBoolean != 0
}
func isFloat(t types.Type) bool {
	b, ok := t.Underlying().(*types.Basic)
	return ok && b.Info()&types.IsFloat != 0
}

var opaqueCache = map[string]int{} // 0 unknown, 1 in progress / transparent, 2 opaque

// opaqueStruct: library struct types whose fields cannot be modelled (runtime.Frame, ...) are single opaque values.
func opaqueStruct(t types.Type) bool {
	n, ok := t.(*types.Named)
	if !ok || n.Obj().Pkg() == nil {
		return false
	}
	if _, isStruct := n.Underlying().(*types.Struct); !isStruct {
		return false
	}
	pp := n.Obj().Pkg().Path()
	if strings.HasPrefix(pp, "golang.org/x/telemetry") || pp == "sync" || pp == "sync/atomic" {
		return false
	}
	k := pp + "." + n.Obj().Name()
	switch opaqueCache[k] {
	case 1:
		return false
	case 2:
		return true
	}
	opaqueCache[k] = 1
	ok2 := func() (ok bool) {
		defer func() {
			if r := recover(); r != nil {
				ok = false
			}
		}()
		leavesOf(t)
		return true
	}()
	if ok2 {
		opaqueCache[k] = 1
		return false
	}
	opaqueCache[k] = 2
	return true
}

// scalarSort returns the SMT sort if t is represented by a single term.
func scalarSort(t types.Type) (string, bool) {
	if isTimeType(t) {
		return STime, true
	}
	if opaqueStruct(t) {
		return SRef, true
	}
	switch u := t.Underlying().(type) {
	case *types.Basic:
		if w, _, ok := intInfo(t); ok {
			return SBV(w), true
		}
		switch {
		case u.Info()&types.IsBoolean != 0:
			return SBool, true
		case u.Info()&types.IsString != 0:
			return SStr, true
		case u.Info()&types.IsFloat != 0:
			return SFloat, true
		case u.Kind() == types.UnsafePointer:
			return SRef, true
		case u.Kind() == types.UntypedNil:
			return SRef, true
		}
	case *types.Chan:
		return SRef, true
	}
	return "", false
}

func typeKey(t types.Type) string {
	t = types.Unalias(t)
	if b, ok := t.(*types.Basic); ok {
		switch b.Kind() {
		case types.Uint8:
			return "uint8"
		case types.Int32:
			return "int32"
		}
	}
	return types.TypeString(t, func(p *types.Package) string { return p.Name() })
}

// ---- flatten / unflatten

type leafSpec struct {
	Path string
	Sort string
}

// leavesOf lists the SMT leaves of a value of type t (for heap cells etc.).
func leavesOf(t types.Type) []leafSpec {
	var out []leafSpec
	var rec func(t types.Type, path string, depth int)
	rec = func(t types.Type, path string, depth int) {
		if depth > 12 {
			panic("type too deep: " + typeKey(t))
		}
		if s, ok := scalarSort(t); ok {
			out = append(out, leafSpec{path, s})
			return
		}
		switch u := t.Underlying().(type) {
		case *types.Struct:
			for i := 0; i < u.NumFields(); i++ {
				rec(u.Field(i).Type(), path+"."+fieldName(u, i), depth+1)
			}
		case *types.Pointer, *types.Signature:
			out = append(out, leafSpec{path, SRef})
		case *types.Map:
			out = append(out, leafSpec{path, SRef})
		case *types.Interface:
			out = append(out, leafSpec{path, SRef})
		case *types.Slice:
			out = append(out, leafSpec{path + "#ref", SRef}, leafSpec{path + "#off", SBV(64)}, leafSpec{path + "#len", SBV(64)}, leafSpec{path + "#cap", SBV(64)})
		case *types.Array:
			if u.Len() == 0 {
				return
			}
			if multiLeafArray(u) {
				for i := int64(0); i < u.Len(); i++ {
					rec(u.Elem(), fmt.Sprintf("%s[%d]", path, i), depth+1)
				}
				return
			}
			es, ok := scalarSort(u.Elem())
			if !ok {
				switch u.Elem().Underlying().(type) {
				case *types.Pointer, *types.Map, *types.Interface, *types.Signature:
					es = SRef
				default:
					panic("unsupported array element type " + typeKey(u.Elem()))
				}
			}
			out = append(out, leafSpec{path, SArr(SBV(64), es)})
		case *types.TypeParam:
			panic("type parameter in value: " + typeKey(t))
		default:
			panic("unsupported type " + typeKey(t))
		}
	}
	rec(t, "", 0)
	return out
}

func fieldName(s *types.Struct, i int) string {
	n := s.Field(i).Name()
	if n == "_" {
		return fmt.Sprintf("_%d", i)
	}
	return n
}

// build constructs a Value of type t pulling leaf terms from get (called in leavesOf order).
func build(t types.Type, get func(l leafSpec) *Term) Value {
	var rec func(t types.Type, path string) Value
	rec = func(t types.Type, path string) Value {
		if s, ok := scalarSort(t); ok {
			return Scalar{get(leafSpec{path, s})}
		}
		switch u := t.Underlying().(type) {
		case *types.Struct:
			sv := StructV{Typ: t}
			for i := 0; i < u.NumFields(); i++ {
				sv.F = append(sv.F, rec(u.Field(i).Type(), path+"."+fieldName(u, i)))
			}
			return sv
		case *types.Pointer:
			r := get(leafSpec{path, SRef})
			return PtrV{Kind: KObj, Elem: u.Elem(), Ref: r, Null: Eq(r, BVInt(0, 64))}
		case *types.Signature:
			return FuncV{Ref: get(leafSpec{path, SRef})}
		case *types.Map:
			return MapV{Ref: get(leafSpec{path, SRef}), K: u.Key(), V: u.Elem()}
		case *types.Interface:
			return IfaceV{Ref: get(leafSpec{path, SRef})}
		case *types.Slice:
			return SliceV{
				Ref:  get(leafSpec{path + "#ref", SRef}),
				Off:  get(leafSpec{path + "#off", SBV(64)}),
				Len:  get(leafSpec{path + "#len", SBV(64)}),
				Cap:  get(leafSpec{path + "#cap", SBV(64)}),
				Elem: u.Elem(),
			}
		case *types.Array:
			if u.Len() == 0 {
				return ArrayV{N: 0, Elem: u.Elem()}
			}
			if multiLeafArray(u) {
				av := ArrayV{N: u.Len(), Elem: u.Elem()}
				for i := int64(0); i < u.Len(); i++ {
					av.Vals = append(av.Vals, rec(u.Elem(), fmt.Sprintf("%s[%d]", path, i)))
				}
				return av
			}
			es, ok := scalarSort(u.Elem())
			if !ok {
				es = SRef
			}
			return ArrayV{A: get(leafSpec{path, SArr(SBV(64), es)}), N: u.Len(), Elem: u.Elem()}
		}
		panic("build: unsupported type " + typeKey(t))
	}
	return rec(t, "")
}

// flatten lists leaf terms of v in leavesOf order. Shaped pointers are converted by conv.
func flatten(t types.Type, v Value, ptrConv func(PtrV) *Term) []*Term {
	var out []*Term
	var rec func(t types.Type, v Value)
	rec = func(t types.Type, v Value) {
		if _, ok := scalarSort(t); ok {
			switch x := v.(type) {
			case Scalar:
				out = append(out, x.T)
			case PtrV: // unsafe.Pointer holding a shaped pointer
				out = append(out, ptrConv(x))
			default:
				panic(fmt.Sprintf("flatten: scalar type %s has value %T", typeKey(t), v))
			}
			return
		}
		switch u := t.Underlying().(type) {
		case *types.Struct:
			sv, ok := v.(StructV)
			if !ok {
				panic(fmt.Sprintf("flatten: struct type %s has value %T", typeKey(t), v))
			}
			for i := 0; i < u.NumFields(); i++ {
				rec(u.Field(i).Type(), sv.F[i])
			}
		case *types.Pointer:
			switch x := v.(type) {
			case PtrV:
				if x.Kind == KObj {
					out = append(out, x.Ref)
				} else {
					out = append(out, ptrConv(x))
				}
			default:
				panic(fmt.Sprintf("flatten: pointer type has value %T", v))
			}
		case *types.Signature:
			fv := v.(FuncV)
			if fv.Ref == nil {
				fv.Ref = B.Fresh("fn", SRef)
			}
			out = append(out, fv.Ref)
		case *types.Map:
			out = append(out, v.(MapV).Ref)
		case *types.Interface:
			out = append(out, v.(IfaceV).Ref)
		case *types.Slice:
			s := v.(SliceV)
			out = append(out, s.Ref, s.Off, s.Len, s.Cap)
		case *types.Array:
			if u.Len() == 0 {
				return
			}
			if av := v.(ArrayV); av.Vals != nil {
				for _, ev := range av.Vals {
					rec(u.Elem(), ev)
				}
				return
			}
			out = append(out, v.(ArrayV).A)
		default:
			panic("flatten: unsupported type " + typeKey(t))
		}
	}
	rec(t, v)
	return out
}

// zeroLeaf returns the zero term for a leaf sort.
func zeroLeaf(l leafSpec) *Term {
	switch {
	case l.Sort == SBool:
		return False()
	case l.Sort == SStr:
		return strLit("")
	case l.Sort == SFloat:
		return B.mk("(_ +zero 11 53)", SFloat)
	case l.Sort == STime:
		return B.Const("time.zero", STime)
	case strings.HasPrefix(l.Sort, "(_ BitVec"):
		return BVInt(0, bvWidth(l.Sort))
	case strings.HasPrefix(l.Sort, "(Array"):
		_, es := arrSorts(l.Sort)
		return ConstArray(l.Sort, zeroLeaf(leafSpec{Sort: es}))
	}
	panic("zeroLeaf: " + l.Sort)
}

func zeroValue(t types.Type) Value {
	return build(t, func(l leafSpec) *Term { return zeroLeaf(l) })
}

func freshValue(t types.Type, prefix string) Value {
	return build(t, func(l leafSpec) *Term { return B.Fresh(prefix+l.Path, l.Sort) })
}

// ---- strings

var strLits = map[string]*Term{}
var strLitOf = map[int]string{}
var strLitFacts []*Term // ground facts about literals, included in every script
var strLitOrder []string

func strLen(s *Term) *Term {
	B.DeclareFun("gs.len", []string{SStr}, SBV(64))
	return B.App("gs.len", SBV(64), s)
}
func strAt(s, i *Term) *Term {
	B.DeclareFun("gs.at", []string{SStr, SBV(64)}, SBV(8))
	return B.App("gs.at", SBV(8), s, i)
}

func strLit(s string) *Term {
	if t, ok := strLits[s]; ok {
		return t
	}
	name := fmt.Sprintf("lit%d_%s", len(strLits), sanitize(truncStr(s, 16)))
	t := B.Const(name, SStr)
	strLits[s] = t
	strLitOf[t.id] = s
	strLitOrder = append(strLitOrder, s)
	strLitFacts = append(strLitFacts, Eq(strLen(t), BVInt(int64(len(s)), 64)))
	if len(s) <= 64 {
		for i := 0; i < len(s); i++ {
			strLitFacts = append(strLitFacts, Eq(strAt(t, BVInt(int64(i), 64)), BVInt(int64(s[i]), 8)))
		}
	}
	return t
}

func truncStr(s string, n int) string {
	if len(s) > n {
		return s[:n]
	}
	return s
}

// literal distinctness facts: literals of equal length that differ must be distinct
// (follows from the at-facts by congruence when len<=64; stated explicitly for robustness).
func strLitDistinct(used map[string]bool) []*Term {
	var ts []*Term
	for _, s := range strLitOrder {
		if used[strLits[s].Op] {
			ts = append(ts, strLits[s])
		}
	}
	if len(ts) < 2 {
		return nil
	}
	return []*Term{Distinct(ts...)}
}
