package main

// Term DAG with hash-consing and SMT-LIB2 printing.

import (
	"fmt"
	"math/big"
	"sort"
	"strings"
)

// Sorts are SMT-LIB sort strings.
const (
	SBool  = "Bool"
	SStr   = "Str"
	SFloat = "(_ FloatingPoint 11 53)"
	STime  = "Time"
	SRef   = "(_ BitVec 64)"
)

func SBV(n int) string { return fmt.Sprintf("(_ BitVec %d)", n) }
func SArr(i, e string) string {
	return "(Array " + i + " " + e + ")"
}

func bvWidth(s string) int {
	var n int
	if _, err := fmt.Sscanf(s, "(_ BitVec %d)", &n); err == nil {
		return n
	}
	return 0
}

func arrSorts(s string) (idx, elem string) {
	// "(Array I E)"
	if !strings.HasPrefix(s, "(Array ") {
		panic("not array sort: " + s)
	}
	body := s[len("(Array ") : len(s)-1]
	// split at top-level space
	depth := 0
	for i, c := range body {
		switch c {
		case '(':
			depth++
		case ')':
			depth--
		case ' ':
			if depth == 0 {
				return body[:i], body[i+1:]
			}
		}
	}
	panic("bad array sort " + s)
}

type Term struct {
	Op   string // SMT head symbol, or leaf text when len(Args)==0
	Args []*Term
	Sort string
	id   int
	// for quantifiers: Op = "forall"/"exists", Bound = bound var decls
	Bound []*Term
	hasBV bool     // contains bound variable
	val   *big.Int // for BV constants
}

type TermBank struct {
	tab   map[string]*Term
	n     int
	decls []string          // declare-fun / declare-sort lines in creation order
	dset  map[string]string // symbol -> sort (or signature) declared
	fresh map[string]int
}

func NewBank() *TermBank {
	return &TermBank{tab: map[string]*Term{}, dset: map[string]string{}, fresh: map[string]int{}}
}

var B = NewBank()

func (b *TermBank) mk(op string, sortS string, args ...*Term) *Term {
	var sb strings.Builder
	sb.WriteString(op)
	sb.WriteByte('|')
	sb.WriteString(sortS)
	hb := false
	for _, a := range args {
		if a == nil {
			panic("nil term arg for " + op)
		}
		fmt.Fprintf(&sb, "|%d", a.id)
		if a.hasBV {
			hb = true
		}
	}
	k := sb.String()
	if t, ok := b.tab[k]; ok {
		return t
	}
	b.n++
	t := &Term{Op: op, Args: args, Sort: sortS, id: b.n, hasBV: hb}
	b.tab[k] = t
	return t
}

// Declare an uninterpreted constant.
func (b *TermBank) Const(name, sortS string) *Term {
	name = smtSym(name)
	if s, ok := b.dset[name]; ok {
		if s != sortS {
			panic(fmt.Sprintf("redeclare %s: %s vs %s", name, s, sortS))
		}
	} else {
		b.dset[name] = sortS
		b.decls = append(b.decls, fmt.Sprintf("(declare-fun %s () %s)", name, sortS))
	}
	return b.mk(name, sortS)
}

// Fresh constant with a readable prefix.
func (b *TermBank) Fresh(prefix, sortS string) *Term {
	prefix = sanitize(prefix)
	b.fresh[prefix]++
	return b.Const(fmt.Sprintf("%s!%d", prefix, b.fresh[prefix]), sortS)
}

func sanitize(s string) string {
	var sb strings.Builder
	for _, c := range s {
		switch {
		case c >= 'a' && c <= 'z', c >= 'A' && c <= 'Z', c >= '0' && c <= '9', c == '_', c == '.', c == '$', c == '!', c == '@':
			sb.WriteRune(c)
		case c == '#':
			sb.WriteByte('%')
		default:
			sb.WriteByte('_')
		}
	}
	return sb.String()
}

func smtSym(s string) string {
	s = sanitize(s)
	if s == "" {
		return "_e"
	}
	if s[0] >= '0' && s[0] <= '9' {
		s = "_" + s
	}
	return s
}

// DeclareFun declares an uninterpreted function.
func (b *TermBank) DeclareFun(name string, argSorts []string, res string) string {
	name = smtSym(name)
	sig := "(" + strings.Join(argSorts, " ") + ") " + res
	if s, ok := b.dset[name]; ok {
		if s != sig {
			panic(fmt.Sprintf("redeclare fun %s: %s vs %s", name, s, sig))
		}
		return name
	}
	b.dset[name] = sig
	b.decls = append(b.decls, fmt.Sprintf("(declare-fun %s %s)", name, sig))
	return name
}

func (b *TermBank) App(fn string, res string, args ...*Term) *Term {
	return b.mk(fn, res, args...)
}

// CanonBoundVar returns the same bound-variable term for the same (name, sort, depth): contract
// quantifiers evaluated in different states then yield syntactically comparable formulas.
func (b *TermBank) CanonBoundVar(name, sortS string, depth int) *Term {
	key := fmt.Sprintf("canonbv|%s|%s|%d", name, sortS, depth)
	if t, ok := b.tab[key]; ok {
		return t
	}
	b.n++
	t := &Term{Op: fmt.Sprintf("%s_c%d", smtSym(name), depth), Sort: sortS, id: b.n, hasBV: true}
	b.tab[key] = t
	return t
}

func (b *TermBank) BoundVar(name, sortS string) *Term {
	b.n++
	t := &Term{Op: smtSym(name) + fmt.Sprintf("?%d", b.n), Sort: sortS, id: b.n, hasBV: true}
	t.Op = strings.ReplaceAll(t.Op, "?", "_q")
	return t
}

// ---- Booleans

var (
	tTrue  *Term
	tFalse *Term
)

func init() {
	tTrue = B.mk("true", SBool)
	tFalse = B.mk("false", SBool)
}

func True() *Term  { return tTrue }
func False() *Term { return tFalse }

func Not(a *Term) *Term {
	if a == tTrue {
		return tFalse
	}
	if a == tFalse {
		return tTrue
	}
	if a.Op == "not" && len(a.Args) == 1 {
		return a.Args[0]
	}
	return B.mk("not", SBool, a)
}

func And(as ...*Term) *Term {
	var out []*Term
	seen := map[int]bool{}
	for _, a := range as {
		if a == tFalse {
			return tFalse
		}
		if a == tTrue || seen[a.id] {
			continue
		}
		if a.Op == "and" && len(a.Args) > 0 {
			for _, x := range a.Args {
				if !seen[x.id] {
					seen[x.id] = true
					out = append(out, x)
				}
			}
			continue
		}
		seen[a.id] = true
		out = append(out, a)
	}
	for _, a := range out {
		if a.Op == "not" && seen[a.Args[0].id] {
			return tFalse
		}
	}
	switch len(out) {
	case 0:
		return tTrue
	case 1:
		return out[0]
	}
	return B.mk("and", SBool, out...)
}

func Or(as ...*Term) *Term {
	var out []*Term
	seen := map[int]bool{}
	for _, a := range as {
		if a == tTrue {
			return tTrue
		}
		if a == tFalse || seen[a.id] {
			continue
		}
		if a.Op == "or" && len(a.Args) > 0 {
			for _, x := range a.Args {
				if !seen[x.id] {
					seen[x.id] = true
					out = append(out, x)
				}
			}
			continue
		}
		seen[a.id] = true
		out = append(out, a)
	}
	for _, a := range out {
		if a.Op == "not" && seen[a.Args[0].id] {
			return tTrue
		}
	}
	switch len(out) {
	case 0:
		return tFalse
	case 1:
		return out[0]
	}
	return B.mk("or", SBool, out...)
}

func Implies(a, b *Term) *Term {
	if a == tTrue {
		return b
	}
	if a == tFalse || b == tTrue {
		return tTrue
	}
	if b == tFalse {
		return Not(a)
	}
	return B.mk("=>", SBool, a, b)
}

func Iff(a, b *Term) *Term { return Eq(a, b) }

func Ite(c, a, b *Term) *Term {
	if c == tTrue {
		return a
	}
	if c == tFalse {
		return b
	}
	if a == b {
		return a
	}
	if a.Sort != b.Sort {
		panic(fmt.Sprintf("ite sort mismatch %s vs %s (%s / %s)", a.Sort, b.Sort, a.Op, b.Op))
	}
	if a.Sort == SBool {
		if a == tTrue && b == tFalse {
			return c
		}
		if a == tFalse && b == tTrue {
			return Not(c)
		}
		if a == tTrue {
			return Or(c, b)
		}
		if b == tFalse {
			return And(c, a)
		}
		if a == tFalse {
			return And(Not(c), b)
		}
		if b == tTrue {
			return Or(Not(c), a)
		}
	}
	return B.mk("ite", a.Sort, c, a, b)
}

func Eq(a, b *Term) *Term {
	if a == b {
		return tTrue
	}
	if a.Sort != b.Sort {
		panic(fmt.Sprintf("eq sort mismatch %s vs %s (%s / %s)", a.Sort, b.Sort, a.Op, b.Op))
	}
	if a.val != nil && b.val != nil {
		if a.val.Cmp(b.val) == 0 {
			return tTrue
		}
		return tFalse
	}
	if a.Sort == SBool {
		if a == tTrue {
			return b
		}
		if b == tTrue {
			return a
		}
		if a == tFalse {
			return Not(b)
		}
		if b == tFalse {
			return Not(a)
		}
	}
	if a.Sort == SFloat {
		// structural equality for floats is not Go ==; callers use FpEq.
		return B.mk("=", SBool, a, b)
	}
	if a.id > b.id {
		a, b = b, a
	}
	return B.mk("=", SBool, a, b)
}

func Neq(a, b *Term) *Term { return Not(Eq(a, b)) }

func Distinct(as ...*Term) *Term {
	if len(as) < 2 {
		return tTrue
	}
	return B.mk("distinct", SBool, as...)
}

// ---- Bit-vectors

func BVConst(v *big.Int, w int) *Term {
	m := new(big.Int).Lsh(big.NewInt(1), uint(w))
	x := new(big.Int).Mod(v, m)
	if x.Sign() < 0 {
		x.Add(x, m)
	}
	var op string
	if w%4 == 0 {
		op = fmt.Sprintf("#x%0*s", w/4, x.Text(16))
	} else {
		op = fmt.Sprintf("(_ bv%s %d)", x.String(), w)
	}
	t := B.mk(op, SBV(w))
	t.val = x
	return t
}

func BVInt(v int64, w int) *Term    { return BVConst(big.NewInt(v), w) }
func BVUint(v uint64, w int) *Term  { return BVConst(new(big.Int).SetUint64(v), w) }
func (t *Term) IsConst() bool       { return t.val != nil }
func (t *Term) ConstVal() *big.Int  { return t.val }
func (t *Term) Width() int          { return bvWidth(t.Sort) }
func signedVal(v *big.Int, w int) *big.Int {
	half := new(big.Int).Lsh(big.NewInt(1), uint(w-1))
	if v.Cmp(half) >= 0 {
		return new(big.Int).Sub(v, new(big.Int).Lsh(big.NewInt(1), uint(w)))
	}
	return new(big.Int).Set(v)
}

func bvBin(op string, a, b *Term) *Term {
	if a.Sort != b.Sort {
		panic(fmt.Sprintf("%s sort mismatch %s vs %s (%s ; %s)", op, a.Sort, b.Sort, a.Op, b.Op))
	}
	w := a.Width()
	if a.val != nil && b.val != nil {
		var r *big.Int
		switch op {
		case "bvadd":
			r = new(big.Int).Add(a.val, b.val)
		case "bvsub":
			r = new(big.Int).Sub(a.val, b.val)
		case "bvmul":
			r = new(big.Int).Mul(a.val, b.val)
		case "bvand":
			r = new(big.Int).And(a.val, b.val)
		case "bvor":
			r = new(big.Int).Or(a.val, b.val)
		case "bvxor":
			r = new(big.Int).Xor(a.val, b.val)
		}
		if r != nil {
			return BVConst(r, w)
		}
	}
	// identities
	switch op {
	case "bvadd":
		if a.val != nil && a.val.Sign() == 0 {
			return b
		}
		if b.val != nil && b.val.Sign() == 0 {
			return a
		}
	case "bvsub":
		if b.val != nil && b.val.Sign() == 0 {
			return a
		}
	}
	return B.mk(op, a.Sort, a, b)
}

func BVAdd(a, b *Term) *Term  { return bvBin("bvadd", a, b) }
func BVSub(a, b *Term) *Term  { return bvBin("bvsub", a, b) }
func BVMul(a, b *Term) *Term  { return bvBin("bvmul", a, b) }
func BVAnd(a, b *Term) *Term  { return bvBin("bvand", a, b) }
func BVOr(a, b *Term) *Term   { return bvBin("bvor", a, b) }
func BVXor(a, b *Term) *Term  { return bvBin("bvxor", a, b) }
func BVUDiv(a, b *Term) *Term { return bvBin("bvudiv", a, b) }
func BVURem(a, b *Term) *Term { return bvBin("bvurem", a, b) }
func BVSDiv(a, b *Term) *Term { return bvBin("bvsdiv", a, b) }
func BVSRem(a, b *Term) *Term { return bvBin("bvsrem", a, b) }
func BVShl(a, b *Term) *Term  { return bvBin("bvshl", a, b) }
func BVLshr(a, b *Term) *Term { return bvBin("bvlshr", a, b) }
func BVAshr(a, b *Term) *Term { return bvBin("bvashr", a, b) }
func BVNot(a *Term) *Term {
	if a.val != nil {
		return BVConst(new(big.Int).Not(a.val), a.Width())
	}
	return B.mk("bvnot", a.Sort, a)
}
func BVNeg(a *Term) *Term {
	if a.val != nil {
		return BVConst(new(big.Int).Neg(a.val), a.Width())
	}
	return B.mk("bvneg", a.Sort, a)
}

func bvCmp(op string, a, b *Term) *Term {
	if a.Sort != b.Sort {
		panic(fmt.Sprintf("%s sort mismatch %s vs %s (%s ; %s)", op, a.Sort, b.Sort, a.Op, b.Op))
	}
	if a.val != nil && b.val != nil {
		w := a.Width()
		var c int
		if strings.HasPrefix(op, "bvs") {
			c = signedVal(a.val, w).Cmp(signedVal(b.val, w))
		} else {
			c = a.val.Cmp(b.val)
		}
		var r bool
		switch op[3:] {
		case "lt":
			r = c < 0
		case "le":
			r = c <= 0
		case "gt":
			r = c > 0
		case "ge":
			r = c >= 0
		}
		if r {
			return tTrue
		}
		return tFalse
	}
	return B.mk(op, SBool, a, b)
}

func BVUlt(a, b *Term) *Term { return bvCmp("bvult", a, b) }
func BVUle(a, b *Term) *Term { return bvCmp("bvule", a, b) }
func BVUgt(a, b *Term) *Term { return bvCmp("bvugt", a, b) }
func BVUge(a, b *Term) *Term { return bvCmp("bvuge", a, b) }
func BVSlt(a, b *Term) *Term { return bvCmp("bvslt", a, b) }
func BVSle(a, b *Term) *Term { return bvCmp("bvsle", a, b) }
func BVSgt(a, b *Term) *Term { return bvCmp("bvsgt", a, b) }
func BVSge(a, b *Term) *Term { return bvCmp("bvsge", a, b) }

func ZeroExt(a *Term, w int) *Term {
	aw := a.Width()
	if aw == w {
		return a
	}
	if aw > w {
		return Extract(a, w-1, 0)
	}
	if a.val != nil {
		return BVConst(a.val, w)
	}
	return B.mk(fmt.Sprintf("(_ zero_extend %d)", w-aw), SBV(w), a)
}

func SignExt(a *Term, w int) *Term {
	aw := a.Width()
	if aw == w {
		return a
	}
	if aw > w {
		return Extract(a, w-1, 0)
	}
	if a.val != nil {
		return BVConst(signedVal(a.val, aw), w)
	}
	return B.mk(fmt.Sprintf("(_ sign_extend %d)", w-aw), SBV(w), a)
}

func Extract(a *Term, hi, lo int) *Term {
	if lo == 0 && hi == a.Width()-1 {
		return a
	}
	if a.val != nil {
		v := new(big.Int).Rsh(a.val, uint(lo))
		return BVConst(v, hi-lo+1)
	}
	return B.mk(fmt.Sprintf("(_ extract %d %d)", hi, lo), SBV(hi-lo+1), a)
}

func Concat(hi, lo *Term) *Term {
	return B.mk("concat", SBV(hi.Width()+lo.Width()), hi, lo)
}

// ---- Arrays

// Lambda builds an array-valued lambda term (z3 syntax); Select beta-reduces it when applied directly.
func Lambda(bound *Term, body *Term) *Term {
	B.n++
	t := &Term{Op: "lambda", Args: []*Term{body}, Sort: SArr(bound.Sort, body.Sort), id: B.n, Bound: []*Term{bound}}
	inner := map[int]bool{bound.id: true}
	t.hasBV = hasOuterBound(body, inner, map[int]bool{})
	return t
}

func Select(a, i *Term) *Term {
	is, es := arrSorts(a.Sort)
	if is != i.Sort {
		panic(fmt.Sprintf("select index sort %s vs %s", is, i.Sort))
	}
	if a.Op == "lambda" && len(a.Bound) == 1 {
		return Subst(a.Args[0], map[int]*Term{a.Bound[0].id: i})
	}
	if a.Op == "ite" && len(a.Args) == 3 && (a.Args[1].Op == "lambda" || a.Args[2].Op == "lambda") {
		return Ite(a.Args[0], Select(a.Args[1], i), Select(a.Args[2], i))
	}
	// read-over-write simplification with syntactically equal / distinct-constant index, and with
	// references that are distinct allocation events (see allocStamp)
	for a.Op == "store" {
		if a.Args[1] == i {
			return a.Args[2]
		}
		if a.Args[1].val != nil && i.val != nil {
			a = a.Args[0]
			continue
		}
		if distinctAllocs(a.Args[1], i) {
			a = a.Args[0]
			continue
		}
		break
	}
	return B.mk("select", es, a, i)
}

func Store(a, i, v *Term) *Term {
	is, es := arrSorts(a.Sort)
	if is != i.Sort || es != v.Sort {
		panic(fmt.Sprintf("store sorts %s[%s]=%s", a.Sort, i.Sort, v.Sort))
	}
	return B.mk("store", a.Sort, a, i, v)
}

func ConstArray(sortS string, v *Term) *Term {
	return B.mk("(as const "+sortS+")", sortS, v)
}

// ---- Quantifiers

func Forall(bound []*Term, body *Term) *Term {
	if body == tTrue {
		return tTrue
	}
	return quant("forall", bound, body)
}
func Exists(bound []*Term, body *Term) *Term {
	if body == tFalse {
		return tFalse
	}
	return quant("exists", bound, body)
}

func quant(q string, bound []*Term, body *Term) *Term {
	key := q + "|"
	for _, b := range bound {
		key += fmt.Sprintf("%d,", b.id)
	}
	key += fmt.Sprintf("|%d", body.id)
	if t, ok := B.tab[key]; ok {
		return t
	}
	defer func() {}()
	B.n++
	// still has bound vars if body mentions bound vars of an outer quantifier
	inner := map[int]bool{}
	for _, b := range bound {
		inner[b.id] = true
	}
	t := &Term{Op: q, Args: []*Term{body}, Sort: SBool, id: B.n, Bound: bound}
	t.hasBV = hasOuterBound(body, inner, map[int]bool{})
	B.tab[key] = t
	return t
}

func hasOuterBound(t *Term, inner map[int]bool, seen map[int]bool) bool {
	if !t.hasBV || seen[t.id] {
		return false
	}
	seen[t.id] = true
	if len(t.Args) == 0 && t.Bound == nil {
		return !inner[t.id]
	}
	in2 := inner
	if t.Bound != nil {
		in2 = map[int]bool{}
		for k := range inner {
			in2[k] = true
		}
		for _, b := range t.Bound {
			in2[b.id] = true
		}
	}
	for _, a := range t.Args {
		if hasOuterBound(a, in2, seen) {
			return true
		}
	}
	return false
}

// Subst replaces leaf terms (by id) in t.
func Subst(t *Term, m map[int]*Term) *Term {
	memo := map[int]*Term{}
	var rec func(t *Term) *Term
	rec = func(t *Term) *Term {
		if r, ok := m[t.id]; ok {
			return r
		}
		if r, ok := memo[t.id]; ok {
			return r
		}
		if len(t.Args) == 0 {
			return t
		}
		changed := false
		na := make([]*Term, len(t.Args))
		for i, a := range t.Args {
			na[i] = rec(a)
			if na[i] != a {
				changed = true
			}
		}
		var r *Term
		if !changed {
			r = t
		} else if t.Bound != nil && t.Op == "lambda" {
			r = Lambda(t.Bound[0], na[0])
		} else if t.Bound != nil {
			r = quant(t.Op, t.Bound, na[0])
		} else {
			r = rebuild(t, na)
		}
		memo[t.id] = r
		return r
	}
	return rec(t)
}

func rebuild(t *Term, na []*Term) *Term {
	switch t.Op {
	case "and":
		return And(na...)
	case "or":
		return Or(na...)
	case "not":
		return Not(na[0])
	case "ite":
		return Ite(na[0], na[1], na[2])
	case "=":
		return Eq(na[0], na[1])
	case "=>":
		return Implies(na[0], na[1])
	case "select":
		return Select(na[0], na[1])
	case "bvadd", "bvsub", "bvmul", "bvand", "bvor", "bvxor":
		return bvBin(t.Op, na[0], na[1])
	case "bvult", "bvule", "bvugt", "bvuge", "bvslt", "bvsle", "bvsgt", "bvsge":
		return bvCmp(t.Op, na[0], na[1])
	}
	return B.mk(t.Op, t.Sort, na...)
}

// ---- Printing

type Printer struct {
	names map[int]string
	defs  []string
	refs  map[int]int
}

func countRefs(t *Term, refs map[int]int) {
	refs[t.id]++
	if refs[t.id] > 1 {
		return
	}
	for _, a := range t.Args {
		countRefs(a, refs)
	}
}

func NewPrinter(roots []*Term) *Printer {
	p := &Printer{names: map[int]string{}, refs: map[int]int{}}
	for _, r := range roots {
		countRefs(r, p.refs)
	}
	return p
}

func (p *Printer) Str(t *Term) string {
	if n, ok := p.names[t.id]; ok {
		return n
	}
	if len(t.Args) == 0 && t.Bound == nil {
		return t.Op
	}
	var sb strings.Builder
	if t.Bound != nil {
		sb.WriteString("(" + t.Op + " (")
		for _, b := range t.Bound {
			fmt.Fprintf(&sb, "(%s %s)", b.Op, b.Sort)
		}
		sb.WriteString(") ")
		sb.WriteString(p.Str(t.Args[0]))
		sb.WriteString(")")
	} else {
		sb.WriteString("(" + t.Op)
		for _, a := range t.Args {
			sb.WriteByte(' ')
			sb.WriteString(p.Str(a))
		}
		sb.WriteByte(')')
	}
	s := sb.String()
	if !t.hasBV && (p.refs[t.id] > 1 || len(s) > 200) {
		n := fmt.Sprintf("t%d", t.id)
		p.defs = append(p.defs, fmt.Sprintf("(define-fun %s () %s %s)", n, t.Sort, s))
		p.names[t.id] = n
		return n
	}
	return s
}

// Script builds a full SMT-LIB script checking sat of (and asserts...).
func Script(asserts []*Term, extraDecls []string, getModelOf []*Term) string {
	p := NewPrinter(asserts)
	var body []string
	for _, a := range asserts {
		s := p.Str(a)
		body = append(body, "(assert "+s+")")
	}
	var sb strings.Builder
	sb.WriteString("(set-option :produce-models true)\n(set-logic ALL)\n")
	sb.WriteString("(declare-sort Str 0)\n(declare-sort Time 0)\n")
	used := usedSymbols(asserts)
	for _, d := range B.decls {
		// only emit declarations of used symbols
		name := declName(d)
		if used[name] {
			sb.WriteString(d)
			sb.WriteByte('\n')
		}
	}
	for _, d := range extraDecls {
		sb.WriteString(d)
		sb.WriteByte('\n')
	}
	for _, d := range p.defs {
		sb.WriteString(d)
		sb.WriteByte('\n')
	}
	for _, s := range body {
		sb.WriteString(s)
		sb.WriteByte('\n')
	}
	sb.WriteString("(check-sat)\n")
	if len(getModelOf) > 0 {
		sb.WriteString("(get-value (")
		for _, t := range getModelOf {
			sb.WriteString(p.Str(t))
			sb.WriteByte(' ')
		}
		sb.WriteString("))\n")
	}
	return sb.String()
}

func declName(d string) string {
	f := strings.Fields(d)
	if len(f) >= 2 {
		return f[1]
	}
	return ""
}

func usedSymbols(roots []*Term) map[string]bool {
	used := map[string]bool{}
	seen := map[int]bool{}
	var rec func(t *Term)
	rec = func(t *Term) {
		if seen[t.id] {
			return
		}
		seen[t.id] = true
		used[t.Op] = true
		for _, a := range t.Args {
			rec(a)
		}
	}
	for _, r := range roots {
		rec(r)
	}
	return used
}

// Leaves returns the declared constants (0-ary, in dset) reachable from roots, sorted by name.
func Leaves(roots []*Term) []*Term {
	seen := map[int]bool{}
	var out []*Term
	var rec func(t *Term)
	rec = func(t *Term) {
		if seen[t.id] {
			return
		}
		seen[t.id] = true
		if len(t.Args) == 0 && t.Bound == nil {
			if _, ok := B.dset[t.Op]; ok && !t.hasBV {
				out = append(out, t)
			}
			return
		}
		for _, a := range t.Args {
			rec(a)
		}
	}
	for _, r := range roots {
		rec(r)
	}
	sort.Slice(out, func(i, j int) bool { return out[i].Op < out[j].Op })
	return out
}

// Apps returns all application terms of function fn reachable from roots.
func Apps(roots []*Term, fn string) []*Term {
	seen := map[int]bool{}
	var out []*Term
	var rec func(t *Term)
	rec = func(t *Term) {
		if seen[t.id] {
			return
		}
		seen[t.id] = true
		if t.Op == fn && len(t.Args) > 0 {
			out = append(out, t)
		}
		for _, a := range t.Args {
			rec(a)
		}
	}
	for _, r := range roots {
		rec(r)
	}
	return out
}

// ---- mathematical integers (ghost "wide" values)

const SInt = "Int"

func IntConst(v *big.Int) *Term {
	var op string
	if v.Sign() < 0 {
		op = "(- " + new(big.Int).Neg(v).String() + ")"
	} else {
		op = v.String()
	}
	t := B.mk(op, SInt)
	return t
}

func IntAdd(a, b *Term) *Term { return B.mk("+", SInt, a, b) }
func IntSub(a, b *Term) *Term { return B.mk("-", SInt, a, b) }
func IntMul(a, b *Term) *Term { return B.mk("*", SInt, a, b) }
func IntLt(a, b *Term) *Term  { return B.mk("<", SBool, a, b) }
func IntLe(a, b *Term) *Term  { return B.mk("<=", SBool, a, b) }

// BVToInt: unsigned or signed value of a bit-vector as a mathematical integer.
func BVToInt(a *Term, signed bool) *Term {
	if a.val != nil {
		if signed {
			return IntConst(signedVal(a.val, a.Width()))
		}
		return IntConst(a.val)
	}
	u := U2I(a)
	if !signed {
		return u
	}
	w := a.Width()
	return Ite(BVSlt(a, BVInt(0, w)), IntSub(u, IntConst(new(big.Int).Lsh(big.NewInt(1), uint(w)))), u)
}

// U2I is the unsigned integer value of a bit-vector, as an uninterpreted function whose defining
// facts (range, +, -, ite, constants, zero-extension, order) are instantiated per occurrence by
// u2iAxioms. (z3 does not decide goals over the built-in bv2nat; cvc5 does, the axioms serve both.)
func U2I(a *Term) *Term {
	if a.val != nil {
		return IntConst(a.val)
	}
	w := a.Width()
	fn := B.DeclareFun(fmt.Sprintf("u2i.%d", w), []string{a.Sort}, SInt)
	return B.App(fn, SInt, a)
}

func isU2I(t *Term) bool { return strings.HasPrefix(t.Op, "u2i.") && len(t.Args) == 1 }

// u2iAxioms returns ground facts about every u2i application reachable from roots.
func u2iAxioms(roots []*Term) []*Term {
	var out []*Term
	seenApp := map[int]bool{}
	var work []*Term
	seen := map[int]bool{}
	var bvAtoms []*Term
	var collect func(t *Term)
	collect = func(t *Term) {
		if seen[t.id] {
			return
		}
		seen[t.id] = true
		if isU2I(t) && !t.hasBV {
			work = append(work, t)
		}
		switch t.Op {
		case "bvult", "bvule", "bvugt", "bvuge", "bvslt", "bvsle", "bvsgt", "bvsge":
			if !t.hasBV {
				bvAtoms = append(bvAtoms, t)
			}
		}
		for _, a := range t.Args {
			collect(a)
		}
	}
	for _, r := range roots {
		collect(r)
	}
	if len(work) == 0 {
		return nil
	}
	two := func(w int) *Term { return IntConst(new(big.Int).Lsh(big.NewInt(1), uint(w))) }
	depth := map[int]int{}
	atomDone := map[int]bool{}
	process := func() {
		for len(work) > 0 {
			app := work[len(work)-1]
			work = work[:len(work)-1]
			if seenApp[app.id] {
				continue
			}
			seenApp[app.id] = true
			a := app.Args[0]
			w := a.Width()
			d := depth[app.id]
			out = append(out, IntLe(IntConst(big.NewInt(0)), app), IntLt(app, two(w)))
			out = append(out, Eq(Eq(a, BVInt(0, w)), Eq(app, IntConst(big.NewInt(0)))))
			sub := func(x *Term) *Term {
				u := U2I(x)
				if isU2I(u) && !seenApp[u.id] {
					if _, ok := depth[u.id]; !ok {
						depth[u.id] = d + 1
					}
					work = append(work, u)
				}
				return u
			}
			if d > 4 {
				continue
			}
			switch {
			case a.Op == "bvadd" && len(a.Args) == 2:
				s := IntAdd(sub(a.Args[0]), sub(a.Args[1]))
				out = append(out, Eq(app, Ite(IntLt(s, two(w)), s, IntSub(s, two(w)))))
			case a.Op == "bvsub" && len(a.Args) == 2:
				x, y := sub(a.Args[0]), sub(a.Args[1])
				df := IntSub(x, y)
				out = append(out, Eq(app, Ite(IntLe(y, x), df, IntAdd(df, two(w)))))
			case a.Op == "bvmul" && len(a.Args) == 2 && (a.Args[0].val != nil || a.Args[1].val != nil):
				x, c := a.Args[0], a.Args[1]
				if x.val != nil {
					x, c = c, x
				}
				prod := IntMul(sub(x), IntConst(c.val))
				out = append(out, Implies(IntLt(prod, two(w)), Eq(app, prod)))
			case a.Op == "ite":
				out = append(out, Eq(app, Ite(a.Args[0], sub(a.Args[1]), sub(a.Args[2]))))
			case strings.HasPrefix(a.Op, "(_ zero_extend"):
				out = append(out, Eq(app, sub(a.Args[0])))
			}
		}
	}
	process()
	// order: unsigned comparisons where one side already has a u2i application (or is a constant)
	for changed := true; changed; {
		changed = false
		for _, at := range bvAtoms {
			if atomDone[at.id] {
				continue
			}
			x, y := at.Args[0], at.Args[1]
			ux, uy := U2I(x), U2I(y)
			known := func(u *Term) bool { return !isU2I(u) || seenApp[u.id] }
			if !known(ux) && !known(uy) {
				continue
			}
			if !isU2I(ux) && !isU2I(uy) {
				atomDone[at.id] = true
				continue
			}
			atomDone[at.id] = true
			changed = true
			for _, u := range []*Term{ux, uy} {
				if isU2I(u) && !seenApp[u.id] {
					depth[u.id] = 3
					work = append(work, u)
				}
			}
			process()
			var rel *Term
			s2i := func(u *Term, w int) *Term {
				half := IntConst(new(big.Int).Lsh(big.NewInt(1), uint(w-1)))
				return Ite(IntLe(half, u), IntSub(u, two(w)), u)
			}
			w := x.Width()
			switch at.Op {
			case "bvult":
				rel = IntLt(ux, uy)
			case "bvule":
				rel = IntLe(ux, uy)
			case "bvugt":
				rel = IntLt(uy, ux)
			case "bvuge":
				rel = IntLe(uy, ux)
			case "bvslt":
				rel = IntLt(s2i(ux, w), s2i(uy, w))
			case "bvsle":
				rel = IntLe(s2i(ux, w), s2i(uy, w))
			case "bvsgt":
				rel = IntLt(s2i(uy, w), s2i(ux, w))
			case "bvsge":
				rel = IntLe(s2i(uy, w), s2i(ux, w))
			}
			out = append(out, Eq(at, rel))
		}
	}
	return out
}


// allocStamp recognises reference terms produced by the executor's allocator: base + k where base is an
// allocation-counter symbol (heaptop0, heaptop!n, lp.heaptop!n), or an input reference (in.*), which
// denotes an object that existed before the function was entered.
func allocStamp(t *Term) (base *Term, off int64, kind int) {
	// kind: 0 unknown, 1 allocation, 2 pre-existing input
	if t.Sort != SRef {
		return nil, 0, 0
	}
	for t.Op == "bvadd" && len(t.Args) == 2 && t.Args[1].val != nil && t.Args[1].val.IsInt64() {
		off += t.Args[1].val.Int64()
		t = t.Args[0]
	}
	if len(t.Args) != 0 || t.val != nil || t.hasBV {
		return nil, 0, 0
	}
	switch {
	case t.Op == "heaptop0" || strings.HasPrefix(t.Op, "heaptop!") || strings.HasPrefix(t.Op, "lp.heaptop!"):
		return t, off, 1
	case strings.HasPrefix(t.Op, "in.") && off == 0:
		return t, 0, 2
	}
	return nil, 0, 0
}

// distinctAllocs: two references that are provably different objects: different allocation events of the
// same symbolic execution, or a fresh allocation versus an input object.
func distinctAllocs(a, b *Term) bool {
	ba, oa, ka := allocStamp(a)
	bb, ob, kb := allocStamp(b)
	if ka == 0 || kb == 0 {
		return false
	}
	if ka == 1 && kb == 1 {
		return ba != bb || oa != ob
	}
	return ka != kb // allocation vs input
}
