package main

import (
	"flag"
	"fmt"
	"os"
	"runtime"
	"sort"
	"strings"
	"sync"
	"time"
)

func main() {
	if len(os.Args) < 2 {
		fmt.Fprintln(os.Stderr, "usage: govc <prove|check|replay|selftest> ...")
		os.Exit(2)
	}
	switch os.Args[1] {
	case "prove":
		cmdProve(os.Args[2:])
	case "check":
		cmdCheck(os.Args[2:])
	case "dump":
		cmdDump(os.Args[2:])
	case "replay":
		cmdReplay(os.Args[2:])
	default:
		fmt.Fprintln(os.Stderr, "unknown command", os.Args[1])
		os.Exit(2)
	}
}

// script builds the SMT-LIB script of an obligation.
// strExtensionality: for every equality between strings in the goal, the extensionality instance
// (same length and same bytes => equal). Str is an uninterpreted sort, so this is what "==" on
// strings means; it is instantiated only where a goal needs it.
func strExtensionality(goal *Term) []*Term {
	var out []*Term
	seen := map[int]bool{}
	var rec func(t *Term)
	rec = func(t *Term) {
		if seen[t.id] {
			return
		}
		seen[t.id] = true
		if t.Op == "=" && len(t.Args) == 2 && t.Args[0].Sort == SStr && !t.hasBV {
			a, b := t.Args[0], t.Args[1]
			k := B.BoundVar("k", SBV(64))
			same := Forall([]*Term{k}, Implies(And(BVSle(BVInt(0, 64), k), BVSlt(k, strLen(a))), Eq(strAt(a, k), strAt(b, k))))
			out = append(out, Implies(And(Eq(strLen(a), strLen(b)), same), t))
		}
		for _, x := range t.Args {
			rec(x)
		}
	}
	rec(goal)
	return out
}

// modelQueries: the input terms plus every read of the initial heap / input strings occurring in the VC,
// so that a counterexample describes the objects reachable from the parameters.
func modelQueries(o *Obligation, asserts []*Term) []*Term {
	if o.IsCover {
		return nil
	}
	out := append([]*Term{}, o.Inputs...)
	seen := map[int]bool{}
	for _, t := range out {
		seen[t.id] = true
	}
	var extra []*Term
	var rootIsInit func(t *Term) bool
	rootIsInit = func(t *Term) bool {
		for t.Op == "select" {
			t = t.Args[0]
		}
		return len(t.Args) == 0 && (strings.HasPrefix(t.Op, "H.") || strings.HasPrefix(t.Op, "ghost0."))
	}
	visited := map[int]bool{}
	var rec func(t *Term)
	rec = func(t *Term) {
		if visited[t.id] || len(extra) > 80 {
			return
		}
		visited[t.id] = true
		for _, a := range t.Args {
			rec(a)
		}
		if t.hasBV || seen[t.id] {
			return
		}
		// reads of element arrays through updated heaps: also ask for the initial contents at that place
		if t.Op == "select" && !strings.HasPrefix(t.Sort, "(Array") && t.Args[0].Op == "select" && !rootIsInit(t) {
			inner := t.Args[0]
			base := inner.Args[0]
			for base.Op == "store" || base.Op == "ite" {
				if base.Op == "store" {
					base = base.Args[0]
				} else {
					base = base.Args[2]
				}
			}
			if len(base.Args) == 0 && strings.HasPrefix(base.Op, "H.elems") {
				q := Select(Select(base, inner.Args[1]), t.Args[1])
				if !seen[q.id] && !q.hasBV {
					seen[q.id] = true
					extra = append(extra, q)
					for _, ix := range []*Term{inner.Args[1], t.Args[1]} {
						if !ix.IsConst() && !seen[ix.id] {
							seen[ix.id] = true
							extra = append(extra, ix)
						}
					}
				}
			}
		}
		switch {
		case t.Op == "select" && rootIsInit(t) && !strings.HasPrefix(t.Sort, "(Array"):
			seen[t.id] = true
			extra = append(extra, t)
			if !t.Args[1].IsConst() && !seen[t.Args[1].id] {
				seen[t.Args[1].id] = true
				extra = append(extra, t.Args[1])
			}
			if t.Args[0].Op == "select" && !t.Args[0].Args[1].IsConst() && !seen[t.Args[0].Args[1].id] {
				seen[t.Args[0].Args[1].id] = true
				extra = append(extra, t.Args[0].Args[1])
			}
		case (t.Op == "gs.len" || t.Op == "gs.at") && len(t.Args) > 0 && len(t.Args[0].Args) == 0 && strings.HasPrefix(t.Args[0].Op, "in."):
			seen[t.id] = true
			extra = append(extra, t)
			if t.Op == "gs.at" && !t.Args[1].IsConst() && !seen[t.Args[1].id] {
				seen[t.Args[1].id] = true
				extra = append(extra, t.Args[1])
			}
		case len(t.Args) == 0 && strings.HasPrefix(t.Op, "ghost0."):
			seen[t.id] = true
			extra = append(extra, t)
		}
	}
	for _, a := range asserts {
		rec(a)
	}
	return append(out, extra...)
}

func hasQuant(t *Term, memo map[int]bool) bool {
	if v, ok := memo[t.id]; ok {
		return v
	}
	r := t.Bound != nil
	if !r {
		for _, a := range t.Args {
			if hasQuant(a, memo) {
				r = true
				break
			}
		}
	}
	memo[t.id] = r
	return r
}

var quantMemo = map[int]bool{}

func (p *Proof) script(o *Obligation) string { return p.scriptQ(o, false) }

func (p *Proof) scriptQ(o *Obligation, qfOnly bool) string {
	var asserts []*Term
	for _, a := range p.assumptions[:o.NAssume] {
		if qfOnly && hasQuant(a, quantMemo) {
			continue
		}
		asserts = append(asserts, a)
	}
	asserts = append(asserts, p.specDefs...)
	asserts = append(asserts, o.Guard)
	if !o.IsCover {
		goal, sks := skolemizeGoal(o.Goal)
		if len(sks) > 0 && len(sks) <= 8 {
			var inst []*Term
			for _, a := range p.assumptions[:o.NAssume] {
				if hasQuant(a, quantMemo) {
					inst = append(inst, instantiateAt(a, sks)...)
				}
			}
			asserts = append(asserts, inst...)
		}
		asserts = append(asserts, Not(goal))
	}
	if !o.IsCover {
		asserts = append(asserts, strExtensionality(o.Goal)...)
	}
	asserts = append(asserts, u2iAxioms(asserts)...)
	used := usedSymbols(asserts)
	// literal facts for literals that occur
	var lits []*Term
	for _, f := range strLitFacts {
		for s := range usedSymbols([]*Term{f}) {
			if strings.HasPrefix(s, "lit") && used[s] {
				lits = append(lits, f)
				break
			}
		}
	}
	lits = append(lits, strLitDistinct(used)...)
	asserts = append(lits, asserts...)
	qs := modelQueries(o, asserts)
	if !qfOnly {
		o.Queries = qs
		if !o.IsCover {
			// a second script that asks for a small counterexample (lengths bounded), for replay
			var small []*Term
			lim := BVInt(1<<16, 64)
			for _, q := range qs {
				if q.Op == "gs.len" || strings.HasSuffix(q.Op, "_len!1") || (q.Op == "select" && len(q.Args[0].Args) == 0 && strings.HasSuffix(q.Args[0].Op, "%len")) {
					if q.Sort == SBV(64) {
						small = append(small, BVSle(q, lim))
					}
				}
			}
			if len(small) > 0 {
				o.SmallScript = Script(append(append([]*Term{}, asserts...), small...), nil, qs)
			}
		}
	}
	return Script(asserts, nil, qs)
}

func discharge(results []*ProofResult, timeoutS int, all bool, verbose bool) {
	type job struct {
		p *Proof
		o *Obligation
	}
	var jobs []job
	for _, r := range results {
		for _, o := range r.Obligations {
			jobs = append(jobs, job{r.proof, o})
		}
	}
	// scripts are built sequentially (term bank is not thread-safe)
	for _, j := range jobs {
		j.o.Script = j.p.script(j.o)
		if !j.o.IsCover {
			j.o.ScriptQF = j.p.scriptQ(j.o, true)
			if j.o.ScriptQF == j.o.Script {
				j.o.ScriptQF = ""
			}
		}
		for _, pt := range j.o.Parts {
			pt.Inputs = j.o.Inputs
			pt.Script = j.p.script(pt)
			pt.ScriptQF = j.p.scriptQ(pt, true)
			if pt.ScriptQF == pt.Script {
				pt.ScriptQF = ""
			}
		}
	}
	workers := runtime.NumCPU() / 2
	if workers < 2 {
		workers = 2
	}
	ch := make(chan job)
	var wg sync.WaitGroup
	for i := 0; i < workers; i++ {
		wg.Add(1)
		go func() {
			defer wg.Done()
			for j := range ch {
				t1 := timeoutS
				if j.o.TimeoutS > t1 && !j.o.IsCover {
					t1 = j.o.TimeoutS
				}
				if len(j.o.Parts) > 0 && t1 > 4 {
					t1 = 4
				}
				if j.o.IsCover && t1 > 3 {
					t1 = 3
				}
				best, rs, dis := solveStaged(j.o, t1, all)
				j.o.Status = best.Status
				j.o.Solver = best.Solver
				j.o.Millis = best.Millis
				if dis {
					j.o.Status = "disagree"
				}
				if best.Status == "sat" {
					j.o.Model, j.o.RawModel = parseModelPos(best.Output, j.o.Queries)
					if !j.o.IsCover && j.o.SmallScript != "" {
						if b2, _, _ := solveRace(j.o.SmallScript, 10, false); b2.Status == "sat" {
							j.o.Model, j.o.RawModel = parseModelPos(b2.Output, j.o.Queries)
							j.o.Solver = b2.Solver + "(small model)"
						}
					}
				}
				_ = rs
				if best.Status != "sat" && best.Status != "unsat" && len(j.o.Parts) > 0 {
					allOK := true
					var ms int64
					for _, pt := range j.o.Parts {
						tp := timeoutS
						if j.o.TimeoutS > tp {
							tp = j.o.TimeoutS
						}
						b2, _, d2 := solveStaged(pt, tp, all)
						ms += b2.Millis
						if os.Getenv("GOVC_DEBUG") != "" {
							fmt.Printf("   part %s: %s %s %dms\n", pt.Name, b2.Status, b2.Solver, b2.Millis)
							os.WriteFile("/tmp/govc_"+sanitize(pt.Name)+".smt2", []byte(pt.Script), 0644)
						}
						if d2 {
							j.o.Status = "disagree"
							allOK = false
							break
						}
						if b2.Status != "unsat" {
							allOK = false
							j.o.Status = b2.Status
							j.o.Solver = b2.Solver
							if b2.Status == "sat" {
								j.o.Model, j.o.RawModel = parseModelPos(b2.Output, pt.Queries)
								j.o.Queries = pt.Queries
								j.o.Script = pt.Script
							}
							break
						}
						j.o.Solver = b2.Solver + "(split)"
					}
					j.o.Millis += ms
					if allOK {
						j.o.Status = "unsat"
					}
				}
			}
		}()
	}
	for _, j := range jobs {
		ch <- j
	}
	close(ch)
	wg.Wait()
	// Second chance, without contention: an obligation that only ran out of time (no model) while 24
	// solver processes competed for the cores is retried with a longer limit, two at a time. A goal
	// that is really violated keeps failing (sat, or unknown again), so this only removes load-induced
	// timeouts on the unchanged tree.
	var retry []job
	for _, j := range jobs {
		if !j.o.IsCover && (j.o.Status == "timeout" || j.o.Status == "unknown") {
			retry = append(retry, j)
		}
	}
	if len(retry) > 0 && len(retry) <= 40 {
		ch2 := make(chan job)
		var wg2 sync.WaitGroup
		for i := 0; i < 2; i++ {
			wg2.Add(1)
			go func() {
				defer wg2.Done()
				for j := range ch2 {
					cands := []*Obligation{j.o}
					if len(j.o.Parts) > 0 {
						cands = j.o.Parts
					}
					ok := true
					var ms int64
					solver := ""
					for _, c := range cands {
						var b solveResult
						if c.ScriptQF != "" {
							b, _, _ = solveRace(c.ScriptQF, 6*timeoutS+j.o.TimeoutS, false)
						}
						if b.Status != "unsat" {
							b, _, _ = solveRace(c.Script, 6*timeoutS+j.o.TimeoutS, false)
						}
						ms += b.Millis
						solver = b.Solver
						if b.Status != "unsat" {
							ok = false
							break
						}
					}
					if ok {
						j.o.Status = "unsat"
						j.o.Solver = solver + "(retry)"
						j.o.Millis += ms
					}
				}
			}()
		}
		for _, j := range retry {
			ch2 <- j
		}
		close(ch2)
		wg2.Wait()
	}
}

// solveStaged first tries the goal with quantifier-free assumptions only (a subset of the assumptions, so
// unsat is conclusive), then with everything.
func solveStaged(o *Obligation, timeoutS int, all bool) (solveResult, []solveResult, bool) {
	if o.ScriptQF != "" {
		t := timeoutS
		b, rs, dis := solveRace(o.ScriptQF, t, all)
		if b.Status == "unsat" || dis {
			b.Solver += "(qf)"
			return b, rs, dis
		}
	}
	return solveRace(o.Script, timeoutS, all)
}

var dumped bool

func cmdProve(args []string) {
	fs := flag.NewFlagSet("prove", flag.ExitOnError)
	dir := fs.String("dir", "/repo", "module directory")
	pkg := fs.String("pkg", "./internal/counter", "package pattern(s), comma separated")
	fnNames := fs.String("fn", "", "functions (relative names), comma separated; empty = all with contracts")
	timeout := fs.Int("t", 10, "solver timeout (s)")
	verbose := fs.Bool("v", false, "verbose")
	dump := fs.String("dump", "", "dump SMT script of this obligation name")
	all := fs.Bool("all", false, "run all solvers and compare")
	strc := fs.Bool("strcontent", false, "string content axioms")
	fs.Parse(args)
	t0 := time.Now()
	eng, err := LoadEngine(*dir, strings.Split(*pkg, ","), "/verif/contracts")
	if err != nil {
		fmt.Fprintln(os.Stderr, "load:", err)
		os.Exit(2)
	}
	eng.strContent = *strc
	fmt.Printf("loaded in %.1fs\n", time.Since(t0).Seconds())
	var results []*ProofResult
	want := map[string]bool{}
	for _, n := range strings.Split(*fnNames, ",") {
		if n != "" {
			want[n] = true
		}
	}
	var cons []*Contract
	for _, c := range eng.cons {
		cons = append(cons, c)
	}
	sort.Slice(cons, func(i, j int) bool { return cons[i].Pkg+cons[i].Func < cons[j].Pkg+cons[j].Func })
	for _, c := range cons {
		if len(want) > 0 && !want[c.Func] {
			continue
		}
		if c.Inline && len(want) == 0 {
			continue
		}
		fns := eng.instances(c.Pkg, c.Func)
		if len(fns) == 0 {
			fmt.Printf("CONTRACT-MISMATCH: no function %s.%s\n", c.Pkg, c.Func)
			continue
		}
		for _, fn := range fns {
			results = append(results, eng.ProveFunctionViews(fn)...)
		}
		delete(want, c.Func)
	}
	// functions without contract requested explicitly
	for n := range want {
		for _, pp := range eng.pkgs {
			for _, fn := range eng.instances(pp.PkgPath, n) {
				results = append(results, eng.ProveFunctionViews(fn)...)
			}
		}
	}
	if len(want) == 0 || *fnNames == "" {
		for _, l := range eng.lemmas {
			results = append(results, eng.ProveLemma(l))
		}
	}
	fmt.Printf("generated in %.1fs\n", time.Since(t0).Seconds())
	discharge(results, *timeout, *all, *verbose)
	nOK, nBad := 0, 0
	for _, r := range results {
		fmt.Printf("== %s (%s:%d)\n", r.Func, r.File, r.Line)
		for _, e := range r.Errors {
			fmt.Printf("   ERROR %s\n", e)
		}
		for _, o := range r.Obligations {
			ok := o.Status == "unsat"
			if o.IsCover {
				ok = o.Status != "unsat" || o.Informational
			}
			if ok {
				nOK++
			} else {
				nBad++
			}
			if *verbose || !ok {
				mark := "ok  "
				if !ok {
					mark = "FAIL"
				}
				fmt.Printf("   %s %-60s %-8s %-10s %5dms  %s\n", mark, o.Name, o.Status, o.Solver, o.Millis, o.Desc)
				if !ok && o.Model != nil {
					var ks []string
					for k := range o.Model {
						ks = append(ks, k)
					}
					sort.Strings(ks)
					for _, k := range ks {
						fmt.Printf("          %s = %s\n", k, o.Model[k])
					}
				}
			}
			if *dump != "" && o.Name == *dump && (!ok || !dumped || os.Getenv("GOVC_DUMP_LAST") != "") {
				dumped = true
				os.WriteFile("/tmp/govc_dump.smt2", []byte(o.Script), 0644)
				os.WriteFile("/tmp/govc_dump_qf.smt2", []byte(o.ScriptQF), 0644)
				fmt.Println("   dumped to /tmp/govc_dump.smt2")
			}
		}
		if *verbose {
			for _, n := range r.Notes {
				fmt.Printf("   note: %s\n", n)
			}
			for _, n := range r.Unmodelled {
				fmt.Printf("   unmodelled: %s\n", n)
			}
		}
	}
	fmt.Printf("obligations ok=%d failed=%d  total %.1fs\n", nOK, nBad, time.Since(t0).Seconds())
}


// describeTerm prints a term without abbreviations (bounded).
func describeTerm(t *Term) string {
	var rec func(t *Term, d int) string
	rec = func(t *Term, d int) string {
		if len(t.Args) == 0 {
			return t.Op
		}
		if d > 6 {
			return "..."
		}
		s := "(" + t.Op
		for _, a := range t.Args {
			s += " " + rec(a, d+1)
		}
		return s + ")"
	}
	return rec(t, 0)
}

// parseModelPos pairs the values of a get-value answer with the queried terms by position.
func parseModelPos(out string, queries []*Term) (map[string]string, map[int]string) {
	m := map[string]string{}
	raw := map[int]string{}
	i := strings.Index(out, "\n")
	if i < 0 {
		return m, raw
	}
	toks := sexpTokens(out[i+1:])
	depth := 0
	var cur []string
	k := 0
	for _, t := range toks {
		switch t {
		case "(":
			depth++
			if depth >= 2 {
				cur = append(cur, t)
			}
		case ")":
			if depth >= 2 {
				cur = append(cur, t)
			}
			depth--
			if depth == 1 && len(cur) > 0 {
				inner := cur[1 : len(cur)-1]
				if len(inner) >= 2 && k < len(queries) {
					_, rest := splitFirstSexp(inner)
					m[describeTerm(queries[k])] = strings.Join(rest, " ")
					raw[queries[k].id] = strings.Join(rest, " ")
				}
				k++
				cur = nil
			}
		default:
			if depth >= 2 {
				cur = append(cur, t)
			}
		}
	}
	return m, raw
}

// parseModel extracts (term value) pairs from a get-value answer.
func parseModel(out string, inputs []*Term) map[string]string {
	m := map[string]string{}
	i := strings.Index(out, "\n")
	if i < 0 {
		return m
	}
	body := out[i+1:]
	// tokenise s-expression: ((name value) (name value) ...)
	toks := sexpTokens(body)
	// find pairs at depth 2
	depth := 0
	var cur []string
	for _, t := range toks {
		switch t {
		case "(":
			depth++
			if depth >= 2 {
				cur = append(cur, t)
			}
		case ")":
			if depth >= 2 {
				cur = append(cur, t)
			}
			depth--
			if depth == 1 && len(cur) > 0 {
				// cur = ( name value... )
				inner := cur[1 : len(cur)-1]
				if len(inner) >= 2 {
					name, rest := splitFirstSexp(inner)
					m[name] = strings.Join(rest, " ")
				}
				cur = nil
			}
		default:
			if depth >= 2 {
				cur = append(cur, t)
			}
		}
	}
	return m
}

func splitFirstSexp(toks []string) (string, []string) {
	if toks[0] != "(" {
		return toks[0], toks[1:]
	}
	d := 0
	for i, t := range toks {
		if t == "(" {
			d++
		} else if t == ")" {
			d--
			if d == 0 {
				return strings.Join(toks[:i+1], " "), toks[i+1:]
			}
		}
	}
	return strings.Join(toks, " "), nil
}

func sexpTokens(s string) []string {
	var out []string
	i := 0
	for i < len(s) {
		c := s[i]
		switch {
		case c == '(' || c == ')':
			out = append(out, string(c))
			i++
		case c == ' ' || c == '\n' || c == '\t' || c == '\r':
			i++
		case c == '"':
			j := i + 1
			for j < len(s) && s[j] != '"' {
				j++
			}
			out = append(out, s[i:min(j+1, len(s))])
			i = j + 1
		case c == '|':
			j := i + 1
			for j < len(s) && s[j] != '|' {
				j++
			}
			out = append(out, s[i:min(j+1, len(s))])
			i = j + 1
		default:
			j := i
			for j < len(s) && !strings.ContainsRune("() \n\t\r", rune(s[j])) {
				j++
			}
			out = append(out, s[i:j])
			i = j
		}
	}
	return out
}
