package main

import (
	"fmt"
	"go/token"
	"go/types"
	"os"
	"path/filepath"
	"sort"
	"strings"

	"golang.org/x/tools/go/packages"
	"golang.org/x/tools/go/ssa"
	"golang.org/x/tools/go/ssa/ssautil"
)

type libFn func(fr *Frame, in ssa.Instruction, st *State, args []Value, rt types.Type) Value

type Engine struct {
	renameNotes []string // contracts rebound after a pure rename of declarations (rename.go)
	fset    *token.FileSet
	prog    *ssa.Program
	pkgs    map[string]*packages.Package
	spkgs   map[string]*ssa.Package
	files   []*ContractFile
	cons    map[string]*Contract // pkgpath.relname
	ghosts  map[string]*GhostDecl
	lemmas  []*LemmaDecl
	pins    []*ConstPin
	typeIDs map[string]int
	pathIDs map[string]int

	recursiveSpec map[string]bool
	autoInline    map[string]bool
	strContent    bool
	repoDir       string
	mirrorUsed    []string
	activeView    map[string]string // contract key -> proof view being proved right now
	loadErrs      []string
	privateNext   bool
	noLoopFrame   bool
	gnnCache      map[string]bool
	atomicInvs    map[string]*AtomicInv
	fieldCons     []*FieldConstraint
	predicates    map[string]*Predicate
	uninterpretedSpec map[string]bool
	fieldConByKey map[string]*FieldConstraint
}

func (e *Engine) typeID(t types.Type) *Term {
	k := typeKey(t)
	id, ok := e.typeIDs[k]
	if !ok {
		id = len(e.typeIDs) + 1
		e.typeIDs[k] = id
	}
	return BVInt(int64(id), 32)
}

func (e *Engine) pathID(k string) int {
	id, ok := e.pathIDs[k]
	if !ok {
		id = len(e.pathIDs) + 1
		e.pathIDs[k] = id
	}
	return id
}

func (e *Engine) ghostType(name string) types.Type {
	g := e.ghosts[name]
	if g == nil {
		return nil
	}
	switch g.Sort {
	case "wide":
		return wideType
	case "bool":
		return types.Typ[types.Bool]
	case "int":
		return types.Typ[types.Int]
	case "uint64":
		return types.Typ[types.Uint64]
	case "string":
		return types.Typ[types.String]
	case "time":
		return e.timeType()
	}
	return types.Typ[types.Int]
}

func ghostSort(g *GhostDecl) string {
	switch g.Sort {
	case "wide":
		return SInt
	case "bool":
		return SBool
	case "string":
		return SStr
	case "time":
		return STime
	}
	return SBV(64)
}

func relName(f *ssa.Function) string {
	if f.Origin() != nil {
		f = f.Origin()
	}
	if recv := f.Signature.Recv(); recv != nil && f.Parent() == nil {
		var pkg *types.Package
		if f.Pkg != nil {
			pkg = f.Pkg.Pkg
		}
		ts := types.TypeString(recv.Type(), types.RelativeTo(pkg))
		if strings.HasPrefix(ts, "*") {
			return "(" + ts + ")." + f.Name()
		}
		return ts + "." + f.Name()
	}
	return f.Name()
}

func funcKey(f *ssa.Function) string {
	if f.Origin() != nil {
		f = f.Origin()
	}
	return f.String()
}

func (e *Engine) funcDisplayName(f *ssa.Function) string {
	pk := ""
	if f.Pkg != nil {
		pk = f.Pkg.Pkg.Name() + "."
	} else if f.Origin() != nil && f.Origin().Pkg != nil {
		pk = f.Origin().Pkg.Pkg.Name() + "."
	}
	if f.Origin() != nil && f.Signature.Recv() == nil {
		return pk + f.Name()
	}
	return pk + relName(f)
}

func funcPkgPath(f *ssa.Function) string {
	if f.Origin() != nil {
		f = f.Origin()
	}
	if f.Pkg != nil {
		return f.Pkg.Pkg.Path()
	}
	if f.Parent() != nil {
		return funcPkgPath(f.Parent())
	}
	return ""
}

func (e *Engine) contractFor(f *ssa.Function) *Contract {
	if f == nil {
		return nil
	}
	key := funcPkgPath(f) + "." + relName(f)
	c := e.cons[key]
	if c != nil && e.activeView != nil {
		if v, ok := e.activeView[key]; ok {
			return c.forView(v)
		}
	}
	return c
}

// forView returns the contract restricted to one proof view: the ensures and loop clauses of other
// views are left out (they are proved in their own pass). Everything else is shared.
func (c *Contract) forView(v string) *Contract {
	n := *c
	n.Ensures = nil
	in := func(tag string) bool {
		if tag == "" {
			return true
		}
		for _, t := range strings.Split(tag, ",") {
			if strings.TrimSpace(t) == v {
				return true
			}
		}
		return false
	}
	for _, cl := range c.Ensures {
		if in(cl.View) {
			n.Ensures = append(n.Ensures, cl)
		}
	}
	n.Loops = nil
	for _, lc := range c.Loops {
		if in(lc.View) {
			n.Loops = append(n.Loops, lc)
		}
	}
	return &n
}

// ProveFunctionViews proves fn once per declared proof view (or once, if its contract declares none).
func (e *Engine) ProveFunctionViews(fn *ssa.Function) []*ProofResult {
	key := funcPkgPath(fn) + "." + relName(fn)
	c := e.cons[key]
	if c == nil || len(c.Views) == 0 {
		return []*ProofResult{e.ProveFunction(fn)}
	}
	var out []*ProofResult
	if e.activeView == nil {
		e.activeView = map[string]string{}
	}
	for _, v := range c.Views {
		e.activeView[key] = v
		r := e.ProveFunction(fn)
		delete(e.activeView, key)
		out = append(out, r)
	}
	return out
}

// constFuncVar: package-level func variable never stored to outside its initializer -> its initial function.
func (e *Engine) constFuncVar(g *ssa.Global) *ssa.Function {
	pkg := g.Pkg
	init := pkg.Func("init")
	if init == nil {
		return nil
	}
	var tgt *ssa.Function
	stores := 0
	for _, m := range pkg.Members {
		fn, ok := m.(*ssa.Function)
		if !ok {
			continue
		}
		var scan func(f *ssa.Function)
		scan = func(f *ssa.Function) {
			for _, b := range f.Blocks {
				for _, in := range b.Instrs {
					if s, ok := in.(*ssa.Store); ok && s.Addr == g {
						stores++
						if f == init {
							switch v := s.Val.(type) {
							case *ssa.Function:
								tgt = v
							case *ssa.MakeClosure:
								if len(v.Bindings) == 0 {
									tgt = v.Fn.(*ssa.Function)
								}
							}
						}
					}
				}
			}
			for _, a := range f.AnonFuncs {
				scan(a)
			}
		}
		scan(fn)
	}
	if stores == 1 && tgt != nil {
		return tgt
	}
	return nil
}

// Load packages and contracts.
func LoadEngine(repoDir string, patterns []string, mirrorDir string) (*Engine, error) {
	e := &Engine{pkgs: map[string]*packages.Package{}, spkgs: map[string]*ssa.Package{}, cons: map[string]*Contract{},
		ghosts: map[string]*GhostDecl{}, typeIDs: map[string]int{}, pathIDs: map[string]int{}, recursiveSpec: map[string]bool{},
		autoInline: map[string]bool{}, repoDir: repoDir}
	overlay := map[string][]byte{}
	// if a guarded contract file is missing in the repo, overlay the mirror copy
	if mirrorDir != "" {
		filepath.Walk(mirrorDir, func(path string, info os.FileInfo, err error) error {
			if err != nil || info.IsDir() || !strings.HasSuffix(path, "zz_verif_spec.go") {
				return nil
			}
			rel, _ := filepath.Rel(mirrorDir, path)
			root := "/repo"
			if rd := os.Getenv("VERIF_REPO"); rd != "" {
				root = rd
			}
			target := filepath.Join(root, rel)
			if _, err := os.Stat(target); err != nil {
				data, _ := os.ReadFile(path)
				overlay[target] = data
				e.mirrorUsed = append(e.mirrorUsed, rel)
			}
			return nil
		})
	}
	cfg := &packages.Config{
		Mode:       packages.LoadAllSyntax,
		Dir:        repoDir,
		BuildFlags: []string{"-tags=verif"},
		Overlay:    overlay,
		Env:        append(os.Environ(), "GOFLAGS=-mod=mod", "GOPROXY=off", "GOSUMDB=off", "GOTOOLCHAIN=local"),
	}
	pkgs, err := packages.Load(cfg, patterns...)
	if err != nil {
		return nil, err
	}
	for _, p := range pkgs {
		for _, er := range p.Errors {
			e.loadErrs = append(e.loadErrs, er.Error())
		}
	}
	if len(e.loadErrs) > 0 {
		return e, fmt.Errorf("packages contain errors: %s", strings.Join(e.loadErrs, "; "))
	}
	e.fset = pkgs[0].Fset
	prog, spkgs := ssautil.Packages(pkgs, ssa.NaiveForm|ssa.InstantiateGenerics)
	e.prog = prog
	for i, p := range pkgs {
		e.pkgs[p.PkgPath] = p
		if spkgs[i] != nil {
			e.spkgs[p.PkgPath] = spkgs[i]
			spkgs[i].Build()
		}
	}
	// contracts
	for _, p := range pkgs {
		for _, f := range p.CompiledGoFiles {
			if filepath.Base(f) != "zz_verif_spec.go" {
				continue
			}
			var cf *ContractFile
			var err error
			if data, ok := overlay[f]; ok {
				cf, err = parseContractText(string(data), f, p.PkgPath)
			} else {
				cf, err = parseContractFile(f, p.PkgPath)
			}
			if err != nil {
				return e, err
			}
			e.addContractFile(cf)
		}
	}
	if err := e.resolveFieldConstraints(); err != nil {
		return e, err
	}
	e.applyRenames()
	return e, nil
}

func (e *Engine) addContractFile(cf *ContractFile) {
	e.files = append(e.files, cf)
	for _, c := range cf.Contracts {
		e.cons[cf.Pkg+"."+c.Func] = c
	}
	for _, g := range cf.Ghosts {
		e.ghosts[g.Name] = g
	}
	e.lemmas = append(e.lemmas, cf.Lemmas...)
	for _, pr := range cf.Predicates {
		if e.predicates == nil {
			e.predicates = map[string]*Predicate{}
		}
		e.predicates[pr.Name] = pr
	}
	for _, fc := range cf.FieldCons {
		e.fieldCons = append(e.fieldCons, fc)
	}
	for _, ai := range cf.AtomicInvs {
		if e.atomicInvs == nil {
			e.atomicInvs = map[string]*AtomicInv{}
		}
		e.atomicInvs[ai.Key] = ai
	}
	e.pins = append(e.pins, cf.Pins...)
	for name := range cf.Recursive {
		e.recursiveSpec[cf.Pkg+"."+name] = true
	}
	for name := range cf.Pure {
		if e.uninterpretedSpec == nil {
			e.uninterpretedSpec = map[string]bool{}
		}
		e.uninterpretedSpec[cf.Pkg+"."+name] = true
	}
}

// findFunc resolves "pkgpath.relname" to an SSA function.
func (e *Engine) findFunc(pkgPath, rel string) *ssa.Function {
	sp := e.spkgs[pkgPath]
	if sp == nil {
		return nil
	}
	var found *ssa.Function
	var visit func(f *ssa.Function)
	visit = func(f *ssa.Function) {
		if found != nil || f == nil {
			return
		}
		if relName(f) == rel {
			found = f
			return
		}
		for _, a := range f.AnonFuncs {
			visit(a)
		}
	}
	var names []string
	for n := range sp.Members {
		names = append(names, n)
	}
	sort.Strings(names)
	for _, n := range names {
		switch m := sp.Members[n].(type) {
		case *ssa.Function:
			visit(m)
		case *ssa.Type:
			for _, t := range []types.Type{m.Type(), types.NewPointer(m.Type())} {
				ms := e.prog.MethodSets.MethodSet(t)
				for i := 0; i < ms.Len(); i++ {
					visit(e.prog.MethodValue(ms.At(i)))
				}
			}
		}
	}
	if found == nil {
		// generic instantiations: look for an instance whose origin matches
		for fn := range ssautil.AllFunctions(e.prog) {
			if fn.Origin() != nil && funcPkgPath(fn) == pkgPath && relName(fn) == rel && len(fn.Blocks) > 0 {
				if found == nil || fn.String() < found.String() {
					found = fn
				}
			}
		}
	}
	return found
}

// instances returns all instantiations (or the function itself) for a contract.
func (e *Engine) instances(pkgPath, rel string) []*ssa.Function {
	f := e.findFunc(pkgPath, rel)
	if f == nil {
		return nil
	}
	if f.Origin() == nil && f.TypeParams().Len() == 0 {
		return []*ssa.Function{f}
	}
	var out []*ssa.Function
	for fn := range ssautil.AllFunctions(e.prog) {
		if fn.Origin() != nil && funcPkgPath(fn) == pkgPath && relName(fn) == rel && len(fn.Blocks) > 0 {
			out = append(out, fn)
		}
	}
	sort.Slice(out, func(i, j int) bool { return out[i].String() < out[j].String() })
	return out
}

// isSpecFunc: functions defined in a zz_verif_spec.go file are pure specification functions.
func (e *Engine) isSpecFunc(f *ssa.Function) bool {
	if f == nil || !f.Pos().IsValid() {
		return false
	}
	return filepath.Base(e.fset.Position(f.Pos()).Filename) == "zz_verif_spec.go"
}

// globalNonNil: package-level error variables initialised once with errors.New / fmt.Errorf and never
// assigned again are non-nil.
func (e *Engine) globalNonNil(pkg *ssa.Package, name string) bool {
	key := pkg.Pkg.Path() + "." + name
	if v, ok := e.gnnCache[key]; ok {
		return v
	}
	if e.gnnCache == nil {
		e.gnnCache = map[string]bool{}
	}
	g, ok := pkg.Members[name].(*ssa.Global)
	res := false
	if ok {
		init := pkg.Func("init")
		stores, good := 0, 0
		var scan func(f *ssa.Function)
		scan = func(f *ssa.Function) {
			for _, b := range f.Blocks {
				for _, in := range b.Instrs {
					if s, ok := in.(*ssa.Store); ok && s.Addr == g {
						stores++
						if f == init {
							if c, ok := s.Val.(*ssa.Call); ok {
								if fn, ok := c.Call.Value.(*ssa.Function); ok {
									switch fn.String() {
									case "errors.New", "fmt.Errorf":
										good++
									}
								}
							}
						}
					}
				}
			}
			for _, a := range f.AnonFuncs {
				scan(a)
			}
		}
		for _, m := range pkg.Members {
			if f, ok := m.(*ssa.Function); ok {
				scan(f)
			}
		}
		res = stores == 1 && good == 1
	}
	e.gnnCache[key] = res
	return res
}

// resolveFieldConstraints maps "Type.field" to heap keys (after packages are loaded).
func (e *Engine) resolveFieldConstraints() error {
	e.fieldConByKey = map[string]*FieldConstraint{}
	for _, fc := range e.fieldCons {
		sp := e.spkgs[fc.Pkg]
		if sp == nil {
			return fmt.Errorf("field-constraint %s: package not loaded", fc.Key)
		}
		i := strings.Index(fc.Key, ".")
		tn, fn := fc.Key[:i], fc.Key[i+1:]
		obj := sp.Pkg.Scope().Lookup(tn)
		if obj == nil {
			return fmt.Errorf("field-constraint %s: no type %s", fc.Key, tn)
		}
		st, ok := obj.Type().Underlying().(*types.Struct)
		if !ok {
			return fmt.Errorf("field-constraint %s: not a struct", fc.Key)
		}
		found := false
		for k := 0; k < st.NumFields(); k++ {
			if st.Field(k).Name() == fn {
				ls := safeLeaves(st.Field(k).Type())
				if len(ls) != 1 {
					return fmt.Errorf("field-constraint %s: field must have a single leaf", fc.Key)
				}
				fc.heapKey = objKey(obj.Type(), "."+fieldName(st, k)+ls[0].Path)
				fc.ft = st.Field(k).Type()
				e.fieldConByKey[fc.heapKey] = fc
				found = true
			}
		}
		if !found {
			return fmt.Errorf("field-constraint %s: no such field", fc.Key)
		}
	}
	return nil
}

func (e *Engine) timeType() types.Type {
	for _, p := range e.prog.AllPackages() {
		if p.Pkg.Path() == "time" {
			if o := p.Pkg.Scope().Lookup("Time"); o != nil {
				return o.Type()
			}
		}
	}
	return types.Typ[types.Int]
}
