package main

import (
	"fmt"
	"go/token"
	"go/types"
	"math"
	"strings"

	"golang.org/x/tools/go/ssa"
)

func float64bits(f float64) uint64 { return math.Float64bits(f) }

func arrayProj(v Value, idx *Term) Value {
	if idx == nil {
		return v
	}
	av := v.(ArrayV)
	if av.Vals != nil {
		if !idx.IsConst() || !idx.ConstVal().IsInt64() || idx.ConstVal().Int64() >= int64(len(av.Vals)) {
			panic("unsupported: symbolic index into an array of structs")
		}
		return av.Vals[idx.ConstVal().Int64()]
	}
	return leafToValue(av.Elem, Select(av.A, idx))
}

func arrayInj(arr Value, idx *Term, v Value, conv func(PtrV) *Term) Value {
	av := arr.(ArrayV)
	if av.Vals != nil {
		if !idx.IsConst() || !idx.ConstVal().IsInt64() || idx.ConstVal().Int64() >= int64(len(av.Vals)) {
			panic("unsupported: symbolic index into an array of structs")
		}
		nv := append([]Value{}, av.Vals...)
		nv[idx.ConstVal().Int64()] = v
		return ArrayV{N: av.N, Elem: av.Elem, Vals: nv}
	}
	ts := flatten(av.Elem, v, conv)
	if len(ts) != 1 {
		panic("unsupported array element with several leaves")
	}
	return ArrayV{A: Store(av.A, idx, ts[0]), N: av.N, Elem: av.Elem}
}

// ---- byte-level reinterpretation

func isByte(t types.Type) bool {
	w, s, ok := intInfo(t)
	return ok && w == 8 && !s
}

// castWidth: if t is an integer type or a struct whose only non-empty leaf is an integer (atomic.UintN), its width.
func castWidth(t types.Type) (int, bool) {
	if w, _, ok := intInfo(t); ok {
		return w, true
	}
	defer func() { recover() }()
	ls := leavesOf(t)
	if len(ls) == 1 && bvWidth(ls[0].Sort) > 0 {
		return bvWidth(ls[0].Sort), true
	}
	return 0, false
}

func (p *Proof) bytesCell(st *State) *Term {
	return p.heapCell(st, elemsKey(types.Typ[types.Uint8], ""), SArr(SRef, SArr(SBV(64), SBV(8))))
}

func (p *Proof) readLE(st *State, arr, idx *Term, nbytes int) *Term {
	a := Select(p.bytesCell(st), arr)
	var r *Term
	for i := 0; i < nbytes; i++ {
		b := Select(a, BVAdd(idx, BVInt(int64(i), 64)))
		if r == nil {
			r = b
		} else {
			r = Concat(b, r)
		}
	}
	return r
}

func (p *Proof) writeLE(st *State, arr, idx *Term, nbytes int, v *Term) {
	key := elemsKey(types.Typ[types.Uint8], "")
	c := p.bytesCell(st)
	a := Select(c, arr)
	for i := 0; i < nbytes; i++ {
		a = Store(a, BVAdd(idx, BVInt(int64(i), 64)), Extract(v, 8*i+7, 8*i))
	}
	st.Heap[key] = Store(c, arr, a)
}

func (p *Proof) loadElemCast(st *State, ptr PtrV, t types.Type) Value {
	if len(ptr.Path) == 0 && types.Identical(ptr.Elem, ptr.ArrElem) {
		return p.loadElem(st, ptr.ArrElem, ptr.Arr, ptr.Idx)
	}
	if isByte(ptr.ArrElem) {
		if w, ok := castWidth(t); ok {
			term := p.readLE(st, ptr.Arr, ptr.Idx, w/8)
			return build(t, func(l leafSpec) *Term { return term })
		}
	}
	if len(ptr.Path) > 0 {
		ev := p.loadElem(st, ptr.ArrElem, ptr.Arr, ptr.Idx)
		return project(ev, ptr.Path)
	}
	panic("unsupported load through reinterpreted pointer " + typeKey(ptr.ArrElem) + " as " + typeKey(t))
}

func (p *Proof) storeElemCast(st *State, ptr PtrV, v Value) {
	if len(ptr.Path) == 0 && types.Identical(ptr.Elem, ptr.ArrElem) {
		p.storeElem(st, ptr.ArrElem, ptr.Arr, ptr.Idx, v)
		return
	}
	if isByte(ptr.ArrElem) {
		if w, ok := castWidth(ptr.Elem); ok {
			ts := flatten(ptr.Elem, v, func(x PtrV) *Term { return p.opaquePtr(st, x) })
			p.writeLE(st, ptr.Arr, ptr.Idx, w/8, ts[0])
			return
		}
	}
	if len(ptr.Path) > 0 {
		ev := p.loadElem(st, ptr.ArrElem, ptr.Arr, ptr.Idx)
		p.storeElem(st, ptr.ArrElem, ptr.Arr, ptr.Idx, inject(ev, ptr.Path, v))
		return
	}
	panic("unsupported store through reinterpreted pointer")
}

// ---- strings

func (p *Proof) strCat(guard, a, b *Term) *Term {
	if a == strLit("") {
		return b
	}
	if b == strLit("") {
		return a
	}
	B.DeclareFun("gs.cat", []string{SStr, SStr}, SStr)
	t := B.App("gs.cat", SStr, a, b)
	if p.strSeen[t.id] {
		return t
	}
	p.strSeen[t.id] = true
	la, lb := strLen(a), strLen(b)
	p.assume(True(), Eq(strLen(t), BVAdd(la, lb)))
	if p.eng.strContent {
		k := B.BoundVar("k", SBV(64))
		z := BVInt(0, 64)
		p.assume(True(), Forall([]*Term{k}, Implies(And(BVSle(z, k), BVSlt(k, la)), Eq(strAt(t, k), strAt(a, k)))))
		p.assume(True(), Forall([]*Term{k}, Implies(And(BVSle(la, k), BVSlt(k, BVAdd(la, lb))), Eq(strAt(t, k), strAt(b, BVSub(k, la))))))
	}
	return t
}

func (p *Proof) strSub(guard, s, lo, hi *Term) *Term {
	if lo.IsConst() && lo.ConstVal().Sign() == 0 && hi == strLen(s) {
		return s
	}
	B.DeclareFun("gs.sub", []string{SStr, SBV(64), SBV(64)}, SStr)
	t := B.App("gs.sub", SStr, s, lo, hi)
	if p.strSeen[t.id] {
		return t
	}
	p.strSeen[t.id] = true
	z := BVInt(0, 64)
	valid := And(BVSle(z, lo), BVSle(lo, hi), BVSle(hi, strLen(s)))
	p.assume(valid, Eq(strLen(t), BVSub(hi, lo)))
	p.assume(And(valid, Eq(lo, z), Eq(hi, strLen(s))), Eq(t, s))
	if p.eng.strContent {
		k := B.BoundVar("k", SBV(64))
		p.assume(valid, Forall([]*Term{k}, Implies(And(BVSle(z, k), BVSlt(k, BVSub(hi, lo))), Eq(strAt(t, k), strAt(s, BVAdd(lo, k))))))
	}
	return t
}

// string([]byte)
func (p *Proof) strOfBytes(st *State, s SliceV) *Term {
	B.DeclareFun("gs.ofarr", []string{SArr(SBV(64), SBV(8)), SBV(64), SBV(64)}, SStr)
	a := Select(p.bytesCell(st), s.Ref)
	t := B.App("gs.ofarr", SStr, a, s.Off, s.Len)
	if p.strSeen[t.id] {
		return t
	}
	p.strSeen[t.id] = true
	p.assume(True(), Eq(strLen(t), s.Len))
	k := B.BoundVar("k", SBV(64))
	z := BVInt(0, 64)
	p.assume(True(), Forall([]*Term{k}, Implies(And(BVSle(z, k), BVSlt(k, s.Len)), Eq(strAt(t, k), Select(a, BVAdd(s.Off, k))))))
	return t
}

// []byte(string)
func (p *Proof) bytesOfStr(st *State, s *Term) SliceV {
	kk := B.BoundVar("k", SBV(64))
	a := Lambda(kk, strAt(s, kk))
	ref := p.allocRef(st)
	key := elemsKey(types.Typ[types.Uint8], "")
	c := p.bytesCell(st)
	st.Heap[key] = Store(c, ref, a)
	return SliceV{Ref: ref, Off: BVInt(0, 64), Len: strLen(s), Cap: strLen(s), Elem: types.Typ[types.Uint8]}
}

// ---- conversions

func (fr *Frame) convert(x *ssa.Convert, st *State) Value {
	p := fr.p
	v := fr.val(x.X)
	from, to := x.X.Type(), x.Type()
	fw, fsigned, fok := intInfo(from)
	tw, _, tok := intInfo(to)
	switch {
	case fok && tok:
		t := v.(Scalar).T
		_ = fw
		if tw <= t.Width() {
			return Scalar{Extract(t, tw-1, 0)}
		}
		if fsigned {
			return Scalar{SignExt(t, tw)}
		}
		return Scalar{ZeroExt(t, tw)}
	case fok && isFloat(to):
		t := v.(Scalar).T
		if fsigned {
			return Scalar{B.mk("(_ to_fp 11 53)", SFloat, rne(), t)}
		}
		return Scalar{B.mk("(_ to_fp_unsigned 11 53)", SFloat, rne(), t)}
	case isFloat(from) && tok:
		t := v.(Scalar).T
		_, tsigned, _ := intInfo(to)
		if tsigned {
			return Scalar{B.mk(fmt.Sprintf("(_ fp.to_sbv %d)", tw), SBV(tw), B.mk("RTZ", "RoundingMode"), t)}
		}
		return Scalar{B.mk(fmt.Sprintf("(_ fp.to_ubv %d)", tw), SBV(tw), B.mk("RTZ", "RoundingMode"), t)}
	case isFloat(from) && isFloat(to):
		return v
	case isString(to):
		if sv, ok := v.(SliceV); ok && isByte(sv.Elem) {
			return Scalar{p.strOfBytes(st, sv)}
		}
		if isString(from) {
			return v
		}
		p.note("conversion to string from " + typeKey(from) + " is uninterpreted")
		r := B.Fresh("convstr", SStr)
		p.assume(True(), p.typeInv(st, to, Scalar{r}))
		return Scalar{r}
	case isString(from):
		if sl, ok := to.Underlying().(*types.Slice); ok && isByte(sl.Elem()) {
			return p.bytesOfStr(st, v.(Scalar).T)
		}
		p.note("conversion from string to " + typeKey(to) + " is uninterpreted")
		r := freshValue(to, "conv")
		p.assume(True(), p.typeInv(st, to, r))
		return r
	}
	// pointer <-> unsafe.Pointer
	if pv, ok := v.(PtrV); ok {
		if pt, ok := to.Underlying().(*types.Pointer); ok {
			pv.Elem = pt.Elem()
			return pv
		}
		if b, ok := to.Underlying().(*types.Basic); ok && b.Kind() == types.UnsafePointer {
			return pv
		}
		if tok { // uintptr(unsafe.Pointer)
			return Scalar{p.opaquePtr(st, pv)}
		}
	}
	if sv, ok := v.(Scalar); ok && sv.T.Sort == SRef {
		if pt, ok := to.Underlying().(*types.Pointer); ok {
			return PtrV{Kind: KObj, Elem: pt.Elem(), Ref: sv.T, Null: Eq(sv.T, BVInt(0, 64))}
		}
		return v
	}
	if _, ok := v.(SliceV); ok {
		// []T -> []U with identical underlying
		return v
	}
	panic("unsupported conversion " + typeKey(from) + " -> " + typeKey(to))
}

func (fr *Frame) typeAssert(x *ssa.TypeAssert, st *State) Value {
	p := fr.p
	iv, ok := fr.val(x.X).(IfaceV)
	if !ok {
		panic("unsupported TypeAssert operand")
	}
	at := x.AssertedType
	if _, isIface := at.Underlying().(*types.Interface); isIface {
		// interface-to-interface: succeeds iff dynamic type implements; uninterpreted
		okT := B.Fresh("assertI", SBool)
		p.assume(True(), Implies(okT, Neq(iv.Ref, BVInt(0, 64))))
		if x.CommaOk {
			return TupleV{IfaceV{Ref: Ite(okT, iv.Ref, BVInt(0, 64))}, Scalar{okT}}
		}
		p.oblige(fr.siteName(x, "assertT"), "assertT", x.Pos(), st.Guard, okT, "type assertion succeeds")
		return iv
	}
	tid := p.eng.typeID(at)
	okT := And(Neq(iv.Ref, BVInt(0, 64)), Eq(dynType(iv.Ref), tid))
	var res Value
	if iv.Dyn != nil && iv.DynT != nil && types.Identical(iv.DynT, at) {
		res = iv.Dyn
	} else {
		// payload function per asserted type
		res = build(at, func(l leafSpec) *Term {
			fn := B.DeclareFun("payload."+typeKey(at)+l.Path, []string{SRef}, l.Sort)
			return B.App(fn, l.Sort, iv.Ref)
		})
	}
	if x.CommaOk {
		zero := zeroValue(at)
		return TupleV{p.iteValue(st, okT, res, zero), Scalar{okT}}
	}
	p.oblige(fr.siteName(x, "assertT"), "assertT", x.Pos(), st.Guard, okT, "type assertion succeeds")
	return res
}

// ---- calls

func (fr *Frame) call(in ssa.Instruction, cc *ssa.CallCommon, st *State, rt types.Type) Value {
	fr.atCall(in, cc, st, false, nil, nil)
	fr.preCall = nil
	if fr.con != nil && len(fr.con.AtCalls) > 0 {
		fr.preCall = st.clone()
	}
	pre := fr.preCall
	res := fr.call1(in, cc, st, rt)
	fr.preCall = pre
	fr.atCall(in, cc, st, true, res, rt)
	return res
}

func (fr *Frame) call1(in ssa.Instruction, cc *ssa.CallCommon, st *State, rt types.Type) Value {
	var args []Value
	for _, a := range cc.Args {
		args = append(args, fr.val(a))
	}
	if cc.IsInvoke() {
		recv := fr.val(cc.Value)
		return fr.invoke(in, cc, recv, args, st, rt)
	}
	switch f := cc.Value.(type) {
	case *ssa.Builtin:
		return fr.builtin(in, f, cc, args, st, rt)
	case *ssa.Function:
		return fr.callFunc(in, f, nil, args, st, rt)
	case *ssa.MakeClosure:
		fv := fr.val(f).(FuncV)
		return fr.callFunc(in, fv.Fn, fv.Bindings, args, st, rt)
	}
	fv, ok := fr.val(cc.Value).(FuncV)
	if ok && fv.Fn != nil {
		if fv.Recv != nil {
			args = append([]Value{fv.Recv}, args...)
		}
		return fr.callFunc(in, fv.Fn, fv.Bindings, args, st, rt)
	}
	// effectively-constant package variables holding functions
	if un, ok := cc.Value.(*ssa.UnOp); ok && un.Op == token.MUL {
		if g, ok := un.X.(*ssa.Global); ok {
			if h := fr.p.eng.libHandler("var:" + g.Pkg.Pkg.Path() + "." + g.Name()); h != nil {
				return h(fr, in, st, args, rt)
			}
			if tgt := fr.p.eng.constFuncVar(g); tgt != nil {
				fr.p.note("package variable " + g.Name() + " assumed to hold its initial function value")
				return fr.callFunc(in, tgt, nil, args, st, rt)
			}
		}
	}
	return fr.havocCall(in, "dynamic call", args, st, rt, nil)
}

func (fr *Frame) callOrd(in ssa.Instruction) int {
	if m := fr.sites[in]; m != nil {
		return m["call"]
	}
	return 0
}

func (fr *Frame) callFunc(in ssa.Instruction, f *ssa.Function, bindings []Value, args []Value, st *State, rt types.Type) Value {
	p := fr.p
	full := funcKey(f)
	if h := p.eng.libHandler(full); h != nil {
		return h(fr, in, st, args, rt)
	}
	if p.eng.recursiveSpec[full] {
		return p.specApp(f, args, rt)
	}
	c := p.eng.contractFor(f)
	if c != nil && !c.Inline {
		return fr.callModular(in, f, c, args, st, rt)
	}
	if c != nil && c.Inline || len(bindings) > 0 || f.Parent() != nil || p.eng.autoInline[full] || p.eng.isSpecFunc(f) {
		if len(f.Blocks) == 0 {
			return fr.havocCall(in, full, args, st, rt, f)
		}
		p.inlined[full] = true
		nf := p.newFrame(f, fmt.Sprintf("%s%s@%s#%d>", fr.prefix, p.eng.funcDisplayName(fr.fn), shortFuncName(f), fr.callOrd(in)), fr.depth+1)
		nf.bindings = bindings
		out, res := p.run(nf, args, st)
		if out == nil {
			return safeFresh(rt)
		}
		*st = *out
		return tupleOrSingle(res, rt)
	}
	return fr.havocCall(in, full, args, st, rt, f)
}

func tupleOrSingle(res []Value, rt types.Type) Value {
	if tt, ok := rt.(*types.Tuple); ok {
		if tt.Len() == 0 {
			return nil
		}
		if len(res) == 0 { // callee never returns
			var tv TupleV
			for i := 0; i < tt.Len(); i++ {
				tv = append(tv, safeFresh(tt.At(i).Type()))
			}
			return tv
		}
		return TupleV(res)
	}
	if len(res) == 0 {
		if rt == nil {
			return nil
		}
		return safeFresh(rt)
	}
	return res[0]
}

// havocCall: callee without contract: arbitrary results; objects directly passed by pointer / slice are havocked.
func (fr *Frame) havocCall(in ssa.Instruction, name string, args []Value, st *State, rt types.Type, f *ssa.Function) Value {
	p := fr.p
	p.unmodelled[name] = true
	for _, a := range args {
		fr.havocArg(st, a, 0)
	}
	for c := range p.escaped {
		if _, ok := st.Locals[c]; ok && c.Typ != nil {
			nv := freshValue(c.Typ, "esc."+c.Name)
			p.assume(True(), p.typeInv(st, c.Typ, nv))
			st.Locals[c] = nv
		}
	}
	// callee may allocate
	st.HeapTop = p.bumpHeapTop(st.HeapTop, "heaptop")
	return fr.freshResult(st, rt, "r."+sanitize(name))
}

func (fr *Frame) freshResult(st *State, rt types.Type, prefix string) Value {
	p := fr.p
	if rt == nil {
		return nil
	}
	if tt, ok := rt.(*types.Tuple); ok {
		if tt.Len() == 0 {
			return nil
		}
		var tv TupleV
		for i := 0; i < tt.Len(); i++ {
			v := freshValue(tt.At(i).Type(), fmt.Sprintf("%s.%d", prefix, i))
			p.assume(True(), p.typeInv(st, tt.At(i).Type(), v))
			tv = append(tv, v)
		}
		return tv
	}
	v := freshValue(rt, prefix)
	p.assume(True(), p.typeInv(st, rt, v))
	return v
}

func (fr *Frame) havocArg(st *State, a Value, depth int) {
	p := fr.p
	switch x := a.(type) {
	case PtrV:
		switch x.Kind {
		case KLocal:
			if len(x.Path) == 0 && x.AIdx == nil {
				nv := freshValue(x.Cell.Typ, "hv."+x.Cell.Name)
				p.assume(True(), p.typeInv(st, x.Cell.Typ, nv))
				st.Locals[x.Cell] = nv
			} else {
				_, ft := pathString(x.RootT, x.Path)
				nv := freshValue(ft, "hv."+x.Cell.Name)
				p.assume(True(), p.typeInv(st, ft, nv))
				st.Locals[x.Cell] = inject(st.Locals[x.Cell], x.Path, nv)
			}
		case KObj:
			if x.Elem != nil {
				if _, ok := x.Elem.Underlying().(*types.Struct); ok && !stdOpaque(x.Elem) {
					nv := freshValue(x.Elem, "hv")
					p.assume(True(), p.typeInv(st, x.Elem, nv))
					p.storeObj(st, x.Elem, x.Ref, "", x.Elem, nv)
				}
			}
		case KField:
			ps, ft := pathString(x.RootT, x.Path)
			nv := freshValue(ft, "hv")
			p.assume(True(), p.typeInv(st, ft, nv))
			p.storeObj(st, x.RootT, x.Ref, ps, ft, nv)
		}
	case SliceV:
		if untrackedElem(x.Elem) {
			return
		}
		// contents may be overwritten
		defer func() { recover() }()
		for _, l := range leavesOf(x.Elem) {
			key := elemsKey(x.Elem, l.Path)
			srt := SArr(SRef, SArr(SBV(64), l.Sort))
			c := p.heapCell(st, key, srt)
			st.Heap[key] = Store(c, x.Ref, B.Fresh("hvelems", SArr(SBV(64), l.Sort)))
		}
	case IfaceV:
		if x.Dyn != nil && depth == 0 {
			fr.havocArg(st, x.Dyn, depth+1)
		}
	}
}

// stdOpaque: library struct types whose fields we never read (os.File etc.)
func stdOpaque(t types.Type) bool {
	n, ok := t.(*types.Named)
	if !ok || n.Obj().Pkg() == nil {
		return false
	}
	switch n.Obj().Pkg().Path() {
	case "os", "net/http", "bufio", "encoding/json", "log", "log/slog", "runtime/debug", "os/exec", "io", "bytes", "strings", "html/template", "text/template", "regexp":
		return true
	}
	return false
}

func (fr *Frame) invoke(in ssa.Instruction, cc *ssa.CallCommon, recv Value, args []Value, st *State, rt types.Type) Value {
	p := fr.p
	iv, ok := recv.(IfaceV)
	if ok && iv.DynT != nil {
		if m := p.eng.prog.LookupMethod(iv.DynT, cc.Method.Pkg(), cc.Method.Name()); m != nil {
			return fr.callFunc(in, m, nil, append([]Value{iv.Dyn}, args...), st, rt)
		}
	}
	key := "iface:" + typeKey(cc.Value.Type()) + "." + cc.Method.Name()
	if h := p.eng.libHandler(key); h != nil {
		return h(fr, in, st, append([]Value{recv}, args...), rt)
	}
	// contract on an interface method of the repository (assumed for every implementation)
	if n, isNamed := types.Unalias(cc.Value.Type()).(*types.Named); isNamed && n.Obj().Pkg() != nil {
		if c := p.eng.cons[n.Obj().Pkg().Path()+"."+n.Obj().Name()+"."+cc.Method.Name()]; c != nil {
			return fr.callIfaceModular(in, cc, c, recv, args, st, rt)
		}
	}
	if ok {
		p.oblige(fr.siteName(in, "call")+".nilrecv", "nil", in.Pos(), st.Guard, Neq(iv.Ref, BVInt(0, 64)), "method call on nil interface")
	}
	return fr.havocCall(in, key, args, st, rt, nil)
}

func (fr *Frame) builtin(in ssa.Instruction, b *ssa.Builtin, cc *ssa.CallCommon, args []Value, st *State, rt types.Type) Value {
	p := fr.p
	switch b.Name() {
	case "len":
		switch x := args[0].(type) {
		case SliceV:
			return Scalar{x.Len}
		case Scalar:
			if x.T.Sort == SStr {
				return Scalar{strLen(x.T)}
			}
		case MapV:
			B.DeclareFun("map.len", []string{SRef, SBV(64)}, SBV(64))
			ver := p.mapVersion(st, x)
			r := B.App("map.len", SBV(64), x.Ref, ver)
			p.assume(True(), BVSle(BVInt(0, 64), r))
			return Scalar{r}
		case ArrayV:
			return Scalar{BVInt(x.N, 64)}
		case PtrV:
			if at, ok := cc.Args[0].Type().Underlying().(*types.Pointer); ok {
				if a, ok := at.Elem().Underlying().(*types.Array); ok {
					return Scalar{BVInt(a.Len(), 64)}
				}
			}
		}
	case "cap":
		if x, ok := args[0].(SliceV); ok {
			return Scalar{x.Cap}
		}
	case "copy":
		return fr.builtinCopy(in, args, st)
	case "append":
		return fr.builtinAppend(in, cc, args, st)
	case "panic":
		p.oblige(fr.siteName(in, "call")+".panic", "panic", in.Pos(), st.Guard, False(), "explicit panic is unreachable")
		return nil
	case "print", "println":
		return nil
	case "delete":
		fr.mapDelete(in, args, st)
		return nil
	case "min", "max":
		res := args[0]
		t0 := cc.Args[0].Type()
		for _, a := range args[1:] {
			var op token.Token = token.LSS
			if b.Name() == "max" {
				op = token.GTR
			}
			c := p.binopVals(fr, nil, st, op, a, res, t0, t0).(Scalar).T
			res = p.iteValue(st, c, a, res)
		}
		return res
	case "recover":
		return IfaceV{Ref: B.Fresh("recovered", SRef)}
	case "ssa:wrapnilchk":
		return args[0]
	case "ssa:deferstack":
		return Scalar{BVInt(0, 64)}
	case "clear":
		p.note("builtin clear havocs its argument")
		fr.havocArg(st, args[0], 0)
		return nil
	}
	panic("unsupported builtin " + b.Name())
}

func (fr *Frame) builtinCopy(in ssa.Instruction, args []Value, st *State) Value {
	p := fr.p
	dst, ok := args[0].(SliceV)
	if !ok {
		panic("unsupported copy destination")
	}
	var n *Term
	key := elemsKey(dst.Elem, "")
	ls := leavesOf(dst.Elem)
	if len(ls) != 1 {
		panic("unsupported copy of multi-leaf elements")
	}
	srt := SArr(SBV(64), ls[0].Sort)
	c := p.heapCell(st, key, SArr(SRef, srt))
	var srcArr, srcOff, srcLen *Term
	switch s := args[1].(type) {
	case SliceV:
		srcArr, srcOff, srcLen = Select(c, s.Ref), s.Off, s.Len
	case Scalar: // string
		kk := B.BoundVar("k", SBV(64))
		srcArr = Lambda(kk, strAt(s.T, kk))
		srcOff, srcLen = BVInt(0, 64), strLen(s.T)
	default:
		panic("unsupported copy source")
	}
	n = Ite(BVSlt(dst.Len, srcLen), dst.Len, srcLen)
	// new destination array as a lambda (definitional; beta-reduced at reads)
	old := Select(c, dst.Ref)
	k := B.BoundVar("k", SBV(64))
	inRange := And(BVSle(dst.Off, k), BVSlt(k, BVAdd(dst.Off, n)))
	na := Lambda(k, Ite(inRange, Select(srcArr, BVAdd(srcOff, BVSub(k, dst.Off))), Select(old, k)))
	st.Heap[key] = Store(c, dst.Ref, na)
	return Scalar{n}
}

func (fr *Frame) builtinAppend(in ssa.Instruction, cc *ssa.CallCommon, args []Value, st *State) Value {
	p := fr.p
	s, ok := args[0].(SliceV)
	if !ok {
		if pv, ok2 := args[0].(PtrV); ok2 && isNilPtrConst(pv) {
			et := cc.Args[0].Type().Underlying().(*types.Slice).Elem()
			z := BVInt(0, 64)
			s = SliceV{Ref: z, Off: z, Len: z, Cap: z, Elem: et}
		} else {
			panic("unsupported append base")
		}
	}
	var addLen *Term
	var srcSlice *SliceV
	var srcStr *Term
	switch a := args[1].(type) {
	case SliceV:
		addLen = a.Len
		srcSlice = &a
	case Scalar:
		addLen = strLen(a.T)
		srcStr = a.T
	case PtrV:
		if isNilPtrConst(a) {
			return s
		}
		panic("unsupported append arg")
	default:
		panic("unsupported append arg")
	}
	// result: fresh or same backing; model as always-fresh backing array whose prefix equals the old contents.
	// (Sound for code that does not rely on aliasing between the old and new slice; noted.)
	newLen := BVAdd(s.Len, addLen)
	ref := p.allocRef(st)
	newCap := B.Fresh("appcap", SBV(64))
	p.assume(True(), And(BVSle(newLen, newCap), BVSle(newCap, BVConst(new(bigInt).Lsh(big1, 62), 64))))
	ls := leavesOf(s.Elem)
	for _, l := range ls {
		key := elemsKey(s.Elem, l.Path)
		srt := SArr(SBV(64), l.Sort)
		c := p.heapCell(st, key, SArr(SRef, srt))
		old := Select(c, s.Ref)
		k := B.BoundVar("k", SBV(64))
		var srcAt *Term
		if srcSlice != nil {
			srcAt = Select(Select(c, srcSlice.Ref), BVAdd(srcSlice.Off, BVSub(k, s.Len)))
		} else {
			srcAt = strAt(srcStr, BVSub(k, s.Len))
		}
		// definitional (lambda) contents: old prefix, then the appended elements
		na := Lambda(k, Ite(BVSlt(k, s.Len), Select(old, BVAdd(s.Off, k)), srcAt))
		st.Heap[key] = Store(c, ref, na)
	}
	p.note("append modelled as copy into a fresh backing array")
	return SliceV{Ref: ref, Off: BVInt(0, 64), Len: newLen, Cap: newCap, Elem: s.Elem}
}

// ---- defers

func (fr *Frame) runDefers(st *State) {
	p := fr.p
	for i := len(fr.defers) - 1; i >= 0; i-- {
		d := fr.defers[i]
		g := And(st.Guard, d.guard)
		if g == tFalse {
			continue
		}
		// run the deferred call under g, keep state unchanged under !g
		branch := st.clone()
		branch.Guard = g
		rest := st.clone()
		rest.Guard = And(st.Guard, Not(d.guard))
		sig := d.call.Signature()
		var rt types.Type = sig.Results()
		// `at call` clauses of the enclosing contract apply to a deferred call where it runs
		fr.atCall(d.instr, d.call, branch, false, nil, nil)
		savedPre := fr.preCall
		fr.preCall = nil
		if fr.con != nil && len(fr.con.AtCalls) > 0 {
			fr.preCall = branch.clone()
		}
		var res Value
		if d.call.IsInvoke() {
			res = fr.invoke(d.instr, d.call, d.fnv, d.args, branch, rt)
		} else {
			switch f := d.call.Value.(type) {
			case *ssa.Builtin:
				res = fr.builtin(d.instr, f, d.call, d.args, branch, rt)
			case *ssa.Function:
				res = fr.callFunc(d.instr, f, nil, d.args, branch, rt)
			default:
				if fv, ok := d.fnv.(FuncV); ok && fv.Fn != nil {
					res = fr.callFunc(d.instr, fv.Fn, fv.Bindings, d.args, branch, rt)
				} else {
					res = fr.havocCall(d.instr, "deferred dynamic call", d.args, branch, rt, nil)
				}
			}
		}
		fr.atCall(d.instr, d.call, branch, true, res, rt)
		fr.preCall = savedPre
		if rest.Guard == tFalse {
			*st = *branch
		} else {
			*st = *p.mergeStates([]*State{branch, rest})
		}
	}
}

// ---- modular calls

func (fr *Frame) callModular(in ssa.Instruction, f *ssa.Function, c *Contract, args []Value, st *State, rt types.Type) Value {
	p := fr.p
	name := shortFuncName(f)
	ord := fr.callOrd(in)
	env := p.calleeEnv(f, c, args, st, nil)
	// implicit: pointer receiver non-nil
	if f.Signature.Recv() != nil && len(args) > 0 {
		if pv, ok := args[0].(PtrV); ok && pv.Null != tFalse {
			p.oblige(fmt.Sprintf("%s%s/pre@%s#%d.recv", fr.prefix, p.eng.funcDisplayName(fr.fn), name, ord), "pre", in.Pos(), st.Guard, Not(pv.Null), "receiver of "+name+" is non-nil")
		}
	}
	for k, cl := range c.Requires {
		g := env.evalBool(cl.Expr, cl.Src)
		p.oblige(fmt.Sprintf("%s%s/pre@%s#%d.%d", fr.prefix, p.eng.funcDisplayName(fr.fn), name, ord, k+1), "pre", in.Pos(), st.Guard, g,
			"precondition of "+name+": "+cl.Src)
	}
	old := st.clone()
	// havoc modifies
	for _, m := range c.Modifies {
		env.havocLvalue(m, st)
	}
	if len(c.Modifies) > 0 {
		// atomic words seen through opaque pointers (model cells "atomicword:*") are not named by
		// modifies clauses: any callee that writes anything may have written them
		for key, old := range st.Heap {
			if strings.HasPrefix(key, "atomicword:") {
				st.Heap[key] = B.Fresh("mod."+key, old.Sort)
			}
		}
	}
	if c.Allocates || true {
		st.HeapTop = p.bumpHeapTop(st.HeapTop, "heaptop")
	}
	p.assumeFieldConstraints(st.Guard, old, st)
	res := fr.freshResult(st, rt, "r."+name)
	env2 := p.calleeEnv(f, c, args, st, old)
	env2.bindResults(f, res)
	var facts []*Term
	for _, cl := range c.Ensures {
		g := env2.evalBool(cl.Expr, cl.Src)
		p.assume(st.Guard, g)
		facts = append(facts, g)
	}
	for _, cl := range c.Assumes {
		g := env2.evalBool(cl.Expr, cl.Src)
		p.assume(st.Guard, g)
		facts = append(facts, g)
		p.assumedLib["assumed postcondition of "+name+": "+cl.Src] = true
	}
	if res != nil {
		res = p.propagateEqs(st, facts, []Value{res})[0]
	} else {
		p.propagateEqs(st, facts, nil)
	}
	return res
}

// ---- effects of loops (what to havoc)

type effects struct {
	allMaps  bool
	cells    map[*Cell]bool
	heap     map[string]bool
	heapSort map[string]string
	ghost    map[string]bool
	allHeap  bool
	alloc    bool
	// allGlobals: package variables too ("modifies everything"); "heap" alone leaves them alone
	allGlobals bool
}

func (fr *Frame) rootOf(v ssa.Value) (alloc *ssa.Alloc, heapT types.Type, path string, ok bool) {
	// follow address computation back to its root
	for {
		switch x := v.(type) {
		case *ssa.Alloc:
			return x, nil, "", true
		case *ssa.FieldAddr:
			v = x.X
		case *ssa.IndexAddr:
			v = x.X
		case *ssa.Convert:
			v = x.X
		case *ssa.ChangeType:
			v = x.X
		case *ssa.MakeInterface:
			// a pointer boxed in an interface argument (json.Unmarshal(data, &x), Decode(&x)) still
			// lets the callee write the local
			v = x.X
		case *ssa.ChangeInterface:
			v = x.X
		default:
			return nil, nil, "", false
		}
	}
}

func (fr *Frame) loopEffects(li *loopInfo) *effects {
	e := &effects{cells: map[*Cell]bool{}, heap: map[string]bool{}, heapSort: map[string]string{}, ghost: map[string]bool{}}
	var blocks []*ssa.BasicBlock
	for b := range li.body {
		blocks = append(blocks, b)
	}
	fr.scanEffects(fr.fn, blocks, e, func(v ssa.Value) {
		// mark local cell roots
		if a, _, _, ok := fr.rootOf(v); ok {
			if c := fr.cells[a]; c != nil {
				e.cells[c] = true
			}
		} else if fv, ok := v.(*ssa.FreeVar); ok {
			if pv, ok := fr.regs[fv].(PtrV); ok && pv.Kind == KLocal {
				e.cells[pv.Cell] = true
			}
		} else if prm, ok := v.(*ssa.Parameter); ok {
			if pv, ok := fr.regs[prm].(PtrV); ok && pv.Kind == KLocal {
				e.cells[pv.Cell] = true
			}
		}
	}, 0, map[*ssa.Function]bool{})
	// hidden iteration state of range loops inside this loop, and ghosts assigned by `at call` clauses
	for b := range li.body {
		for _, in := range b.Instrs {
			if nx, ok := in.(*ssa.Next); ok {
				if rs := fr.rangeIt[nx.Iter]; rs != nil {
					e.cells[rs.cell] = true
				}
			}
			var cc *ssa.CallCommon
			switch y := in.(type) {
			case *ssa.Call:
				cc = &y.Call
			case *ssa.Defer:
				cc = &y.Call
			}
			if cc != nil && fr.con != nil {
				name := calleeShortName(cc)
				ord := fr.callOrd(in)
				for _, ac := range fr.con.AtCalls {
					if ac.Kind == "ghost" && ac.Callee == name && ac.Ord == ord {
						e.ghost[ac.Ghost] = true
					}
				}
			}
		}
	}
	return e
}

// scanEffects conservatively collects what the given blocks may write.
func (fr *Frame) scanEffects(fn *ssa.Function, blocks []*ssa.BasicBlock, e *effects, markRoot func(ssa.Value), depth int, seen map[*ssa.Function]bool) {
	p := fr.p
	heapStoreByType := func(addrT types.Type, addr ssa.Value) {
		// store through a pointer that is not rooted in a local: havoc heap cells by static type
		switch x := addr.(type) {
		case *ssa.FieldAddr:
			// find root struct type and path
			var path []int
			var cur ssa.Value = x
			for {
				fa, ok := cur.(*ssa.FieldAddr)
				if !ok {
					break
				}
				path = append([]int{fa.Field}, path...)
				cur = fa.X
			}
			if g, ok := cur.(*ssa.Global); ok {
				rt := g.Type().(*types.Pointer).Elem()
				ps, ft := pathString(rt, path)
				for _, l := range safeLeaves(ft) {
					e.heap["G:"+g.Pkg.Pkg.Name()+"."+g.Name()+ps+l.Path] = true
					e.heapSort["G:"+g.Pkg.Pkg.Name()+"."+g.Name()+ps+l.Path] = l.Sort
				}
				return
			}
			pt, ok := cur.Type().Underlying().(*types.Pointer)
			if !ok {
				e.allHeap = true
				return
			}
			ps, ft := pathString(pt.Elem(), path)
			for _, l := range safeLeaves(ft) {
				e.heap[objKey(pt.Elem(), ps+l.Path)] = true
				e.heapSort[objKey(pt.Elem(), ps+l.Path)] = SArr(SRef, l.Sort)
			}
		case *ssa.IndexAddr:
			if sl, ok := x.X.Type().Underlying().(*types.Slice); ok {
				for _, l := range safeLeaves(sl.Elem()) {
					e.heap[elemsKey(sl.Elem(), l.Path)] = true
					e.heapSort[elemsKey(sl.Elem(), l.Path)] = SArr(SRef, SArr(SBV(64), l.Sort))
				}
				return
			}
			e.allHeap = true
		case *ssa.Global:
			rt := x.Type().(*types.Pointer).Elem()
			for _, l := range safeLeaves(rt) {
				e.heap["G:"+x.Pkg.Pkg.Name()+"."+x.Name()+l.Path] = true
				e.heapSort["G:"+x.Pkg.Pkg.Name()+"."+x.Name()+l.Path] = l.Sort
			}
		default:
			// through a pointer value: by pointee type
			if pt, ok := addr.Type().Underlying().(*types.Pointer); ok {
				if _, isConv := addr.(*ssa.Convert); isConv {
					// reinterpreting store into bytes
					e.heap[elemsKey(types.Typ[types.Uint8], "")] = true
					e.heapSort[elemsKey(types.Typ[types.Uint8], "")] = SArr(SRef, SArr(SBV(64), SBV(8)))
					return
				}
				for _, l := range safeLeaves(pt.Elem()) {
					e.heap[objKey(pt.Elem(), l.Path)] = true
					e.heapSort[objKey(pt.Elem(), l.Path)] = SArr(SRef, l.Sort)
				}
				return
			}
			e.allHeap = true
		}
	}
	for _, b := range blocks {
		for _, in := range b.Instrs {
			switch x := in.(type) {
			case *ssa.Store:
				if a, _, _, ok := fr.rootOf(x.Addr); ok && !(a.Heap && isStructNonTime(a.Type().(*types.Pointer).Elem())) {
					markRoot(a)
				} else if ok {
					heapStoreByType(x.Addr.Type(), x.Addr)
				} else {
					// root is a param / freevar / loaded pointer
					root := addrRoot(x.Addr)
					switch root.(type) {
					case *ssa.Parameter, *ssa.FreeVar:
						markRoot(root)
						heapStoreByType(x.Addr.Type(), x.Addr)
					default:
						heapStoreByType(x.Addr.Type(), x.Addr)
					}
				}
			case *ssa.Alloc:
				t := x.Type().(*types.Pointer).Elem()
				if x.Heap && isStructNonTime(t) {
					e.alloc = true
					for _, l := range safeLeaves(t) {
						e.heap[objKey(t, l.Path)] = true
						e.heapSort[objKey(t, l.Path)] = SArr(SRef, l.Sort)
					}
				}
			case *ssa.MakeSlice:
				e.alloc = true
				et := x.Type().Underlying().(*types.Slice).Elem()
				for _, l := range safeLeaves(et) {
					e.heap[elemsKey(et, l.Path)] = true
					e.heapSort[elemsKey(et, l.Path)] = SArr(SRef, SArr(SBV(64), l.Sort))
				}
			case *ssa.MakeMap:
				e.alloc = true
				fr.mapEffects(x.Type(), e)
			case *ssa.MapUpdate:
				fr.mapEffects(x.Map.Type(), e)
			case *ssa.Convert:
				if isString(x.X.Type()) && !isString(x.Type()) {
					e.alloc = true
					e.heap[elemsKey(types.Typ[types.Uint8], "")] = true
					e.heapSort[elemsKey(types.Typ[types.Uint8], "")] = SArr(SRef, SArr(SBV(64), SBV(8)))
				}
			case *ssa.Slice:
				if pt, ok := x.X.Type().Underlying().(*types.Pointer); ok {
					e.alloc = true
					if at, ok := pt.Elem().Underlying().(*types.Array); ok && !untrackedElem(at.Elem()) {
						for _, l := range safeLeaves(at.Elem()) {
							e.heap[elemsKey(at.Elem(), l.Path)] = true
							e.heapSort[elemsKey(at.Elem(), l.Path)] = SArr(SRef, SArr(SBV(64), l.Sort))
						}
					}
				}
			case *ssa.Call, *ssa.Defer, *ssa.Go:
				var cc *ssa.CallCommon
				switch y := x.(type) {
				case *ssa.Call:
					cc = &y.Call
				case *ssa.Defer:
					cc = &y.Call
				case *ssa.Go:
					continue
				}
				e.alloc = true
				fr.callEffects(fn, cc, e, markRoot, depth, seen)
			case *ssa.RunDefers:
				// deferred calls were scanned at their Defer instruction only if inside the blocks;
				// a rundefers inside a loop body cannot occur (defers run at function exit).
			case *ssa.Next:
				// range iterator state
				if a, ok := x.Iter.(*ssa.Range); ok {
					_ = a
				}
			}
		}
	}
	_ = p
}

func isStructNonTime(t types.Type) bool {
	_, ok := t.Underlying().(*types.Struct)
	return ok && !isTimeType(t)
}

func safeLeaves(t types.Type) (ls []leafSpec) {
	defer func() {
		if r := recover(); r != nil {
			ls = nil
		}
	}()
	return leavesOf(t)
}

func addrRoot(v ssa.Value) ssa.Value {
	for {
		switch x := v.(type) {
		case *ssa.FieldAddr:
			v = x.X
		case *ssa.IndexAddr:
			v = x.X
		case *ssa.Convert:
			v = x.X
		case *ssa.ChangeType:
			v = x.X
		default:
			return v
		}
	}
}

func (fr *Frame) callEffects(fn *ssa.Function, cc *ssa.CallCommon, e *effects, markRoot func(ssa.Value), depth int, seen map[*ssa.Function]bool) {
	p := fr.p
	// locals whose address was boxed into an interface may be written by any callee
	for _, b := range fn.Blocks {
		for _, in := range b.Instrs {
			if mi, ok := in.(*ssa.MakeInterface); ok {
				if al, ok := mi.X.(*ssa.Alloc); ok {
					markRoot(al)
				}
			}
		}
	}
	// any pointer-to-local passed as an argument may be written
	for _, a := range cc.Args {
		if al, _, _, ok := fr.rootOf(a); ok {
			markRoot(al)
		}
		switch a.(type) {
		case *ssa.Parameter, *ssa.FreeVar:
			markRoot(a)
		}
	}
	if cc.IsInvoke() {
		key := "iface:" + typeKey(cc.Value.Type()) + "." + cc.Method.Name()
		if eff := p.eng.libEffects(key); eff != nil {
			eff(e)
		}
		fr.argEffects(cc, e)
		return
	}
	var callee *ssa.Function
	var viaClosure bool
	switch f := cc.Value.(type) {
	case *ssa.Builtin:
		switch f.Name() {
		case "copy", "append", "clear":
			if len(cc.Args) > 0 {
				if sl, ok := cc.Args[0].Type().Underlying().(*types.Slice); ok {
					for _, l := range safeLeaves(sl.Elem()) {
						e.heap[elemsKey(sl.Elem(), l.Path)] = true
						e.heapSort[elemsKey(sl.Elem(), l.Path)] = SArr(SRef, SArr(SBV(64), l.Sort))
					}
				}
			}
		case "delete":
			fr.mapEffects(cc.Args[0].Type(), e)
		}
		return
	case *ssa.Function:
		callee = f
	case *ssa.MakeClosure:
		callee = f.Fn.(*ssa.Function)
		viaClosure = true
		for _, b := range f.Bindings {
			markRoot(b)
		}
	default:
		// dynamic: any closure created in this function may be the target
		for _, af := range fn.AnonFuncs {
			if !seen[af] && depth < 6 {
				seen[af] = true
				fr.scanEffects(af, af.Blocks, e, func(v ssa.Value) {
					if fv, ok := v.(*ssa.FreeVar); ok {
						// map free var to the binding in the parent: conservatively mark every captured alloc
						_ = fv
					}
				}, depth+1, seen)
			}
		}
		// conservatively: all cells captured by closures of this function
		for _, b := range fn.Blocks {
			for _, in := range b.Instrs {
				if mc, ok := in.(*ssa.MakeClosure); ok {
					for _, bd := range mc.Bindings {
						markRoot(bd)
					}
				}
			}
		}
		if g := constFuncGlobal(cc.Value); g != nil {
			if tgt := p.eng.constFuncVar(g); tgt != nil {
				callee = tgt
			} else {
				return
			}
		} else {
			fr.argEffects(cc, e)
			return
		}
	}
	_ = viaClosure
	full := funcKey(callee)
	if eff := p.eng.libEffects(full); eff != nil {
		eff(e)
		return
	}
	if p.eng.libHandler(full) != nil {
		fr.argEffects(cc, e)
		return
	}
	c := p.eng.contractFor(callee)
	if c != nil && !c.Inline {
		for _, m := range c.Modifies {
			p.modifiesEffects(callee, m, cc, e, markRoot, fr)
		}
		return
	}
	if (c != nil && c.Inline) || callee.Parent() != nil || viaClosure || p.eng.autoInline[full] || p.eng.isSpecFunc(callee) {
		if seen[callee] || depth > 6 || len(callee.Blocks) == 0 {
			return
		}
		seen[callee] = true
		fr.scanEffects(callee, callee.Blocks, e, func(v ssa.Value) {
			switch x := v.(type) {
			case *ssa.Parameter:
				// map to the argument root at this call site
				for i, prm := range callee.Params {
					if prm == x && i < len(cc.Args) {
						if al, _, _, ok := fr.rootOf(cc.Args[i]); ok {
							markRoot(al)
						} else {
							markRoot(cc.Args[i])
						}
					}
				}
			case *ssa.FreeVar:
				if mc, ok := cc.Value.(*ssa.MakeClosure); ok {
					for i, fv := range callee.FreeVars {
						if fv == x && i < len(mc.Bindings) {
							markRoot(mc.Bindings[i])
						}
					}
				}
			}
		}, depth+1, seen)
		return
	}
	fr.argEffects(cc, e)
}

func constFuncGlobal(v ssa.Value) *ssa.Global {
	if un, ok := v.(*ssa.UnOp); ok && un.Op == token.MUL {
		if g, ok := un.X.(*ssa.Global); ok {
			return g
		}
	}
	return nil
}

// argEffects: havocCall semantics: pointees / slice contents of direct args may change.
func (fr *Frame) argEffects(cc *ssa.CallCommon, e *effects) {
	for _, a := range cc.Args {
		// a pointer boxed in an interface argument (Decode(&x), Unmarshal(data, &x)) is still a pointer
		for {
			if mi, ok := a.(*ssa.MakeInterface); ok {
				a = mi.X
				continue
			}
			break
		}
		switch t := a.Type().Underlying().(type) {
		case *types.Pointer:
			if _, ok := t.Elem().Underlying().(*types.Struct); ok && !stdOpaque(t.Elem()) && !isTimeType(t.Elem()) {
				if fa, ok := a.(*ssa.FieldAddr); ok {
					_ = fa
				}
				for _, l := range safeLeaves(t.Elem()) {
					e.heap[objKey(t.Elem(), l.Path)] = true
					e.heapSort[objKey(t.Elem(), l.Path)] = SArr(SRef, l.Sort)
				}
			}
			// field address passed: havoc that field's cells by root type
			if fa, ok := a.(*ssa.FieldAddr); ok {
				var path []int
				var cur ssa.Value = fa
				for {
					f2, ok := cur.(*ssa.FieldAddr)
					if !ok {
						break
					}
					path = append([]int{f2.Field}, path...)
					cur = f2.X
				}
				if pt, ok := cur.Type().Underlying().(*types.Pointer); ok {
					if _, isAlloc := cur.(*ssa.Alloc); !isAlloc {
						ps, ft := pathString(pt.Elem(), path)
						for _, l := range safeLeaves(ft) {
							e.heap[objKey(pt.Elem(), ps+l.Path)] = true
							e.heapSort[objKey(pt.Elem(), ps+l.Path)] = SArr(SRef, l.Sort)
						}
					}
				}
			}
		case *types.Slice:
			if untrackedElem(t.Elem()) {
				continue
			}
			for _, l := range safeLeaves(t.Elem()) {
				e.heap[elemsKey(t.Elem(), l.Path)] = true
				e.heapSort[elemsKey(t.Elem(), l.Path)] = SArr(SRef, SArr(SBV(64), l.Sort))
			}
		}
	}
}

func describe(v Value) string {
	switch x := v.(type) {
	case Scalar:
		return x.T.Op
	}
	return strings.TrimPrefix(fmt.Sprintf("%T", v), "main.")
}

// callIfaceModular: a call through an interface method that has a contract (requires are checked,
// ensures assumed for whatever implementation is behind the interface; listed as an assumption).
func (fr *Frame) callIfaceModular(in ssa.Instruction, cc *ssa.CallCommon, c *Contract, recv Value, args []Value, st *State, rt types.Type) Value {
	p := fr.p
	name := cc.Method.Name()
	ord := fr.callOrd(in)
	sig := cc.Method.Type().(*types.Signature)
	mkEnv := func(s, old *State) *CEnv {
		env := &CEnv{p: p, pkg: cc.Method.Pkg(), fn: fr.fn, vars: map[string]cvar{}, st: s, old: old}
		env.vars["recv"] = cvar{recv, cc.Value.Type()}
		for i := 0; i < sig.Params().Len() && i < len(args); i++ {
			prm := sig.Params().At(i)
			if prm.Name() != "" && prm.Name() != "_" {
				env.vars[prm.Name()] = cvar{coerceNil(args[i], prm.Type()), prm.Type()}
			}
			env.vars[fmt.Sprintf("arg%d", i)] = cvar{coerceNil(args[i], prm.Type()), prm.Type()}
		}
		return env
	}
	if iv, ok := recv.(IfaceV); ok {
		p.oblige(fr.siteName(in, "call")+".nilrecv", "nil", in.Pos(), st.Guard, Neq(iv.Ref, BVInt(0, 64)), "method "+name+" called on a nil interface")
	}
	env := mkEnv(st, nil)
	for k, cl := range c.Requires {
		g := env.evalBool(cl.Expr, cl.Src)
		p.oblige(fmt.Sprintf("%s%s/pre@%s#%d.%d", fr.prefix, p.eng.funcDisplayName(fr.fn), name, ord, k+1), "pre", in.Pos(), st.Guard, g, "precondition of "+name+": "+cl.Src)
	}
	old := st.clone()
	st.HeapTop = p.bumpHeapTop(st.HeapTop, "heaptop")
	res := fr.freshResult(st, rt, "r."+name)
	env2 := mkEnv(st, old)
	var vals []Value
	switch x := res.(type) {
	case TupleV:
		vals = x
	case nil:
	default:
		vals = []Value{x}
	}
	rs := sig.Results()
	for i := 0; i < rs.Len() && i < len(vals); i++ {
		env2.vars[fmt.Sprintf("result%d", i)] = cvar{vals[i], rs.At(i).Type()}
		if rs.Len() == 1 {
			env2.vars["result"] = cvar{vals[i], rs.At(i).Type()}
		}
		if nm := rs.At(i).Name(); nm != "" && nm != "_" {
			env2.vars[nm] = cvar{vals[i], rs.At(i).Type()}
		}
	}
	for _, cl := range append(append([]*Clause{}, c.Ensures...), c.Assumes...) {
		g := env2.evalBool(cl.Expr, cl.Src)
		p.assume(st.Guard, g)
		p.assumedLib["assumed for every implementation of "+c.Func+": "+cl.Src] = true
	}
	return res
}
