package main

import (
	"go/ast"
	"go/types"
	"strings"

	"golang.org/x/tools/go/ssa"
)

// staticType computes the static type of a simple contract lvalue expression over callee parameters.
func staticType(callee *ssa.Function, x ast.Expr) types.Type {
	switch n := x.(type) {
	case *ast.ParenExpr:
		return staticType(callee, n.X)
	case *ast.Ident:
		for _, prm := range callee.Params {
			if prm.Name() == n.Name {
				return prm.Type()
			}
		}
		if callee.Pkg != nil {
			if obj := callee.Pkg.Pkg.Scope().Lookup(n.Name); obj != nil {
				return obj.Type()
			}
		}
	case *ast.StarExpr:
		t := staticType(callee, n.X)
		if t != nil {
			if pt, ok := t.Underlying().(*types.Pointer); ok {
				return pt.Elem()
			}
		}
	case *ast.SelectorExpr:
		t := staticType(callee, n.X)
		if t == nil {
			return nil
		}
		obj, _, _ := types.LookupFieldOrMethod(t, true, pkgOfFunc(callee), n.Sel.Name)
		if obj != nil {
			return obj.Type()
		}
	}
	return nil
}

func paramIndex(callee *ssa.Function, x ast.Expr) int {
	for {
		switch n := x.(type) {
		case *ast.ParenExpr:
			x = n.X
		case *ast.StarExpr:
			x = n.X
		case *ast.SelectorExpr:
			x = n.X
		case *ast.Ident:
			for i, prm := range callee.Params {
				if prm.Name() == n.Name {
					return i
				}
			}
			return -1
		default:
			return -1
		}
	}
}

func (p *Proof) modifiesEffects(callee *ssa.Function, m *Clause, cc *ssa.CallCommon, e *effects, markRoot func(ssa.Value), fr *Frame) {
	switch n := m.Expr.(type) {
	case *ast.Ident:
		if n.Name == "heap" || n.Name == "everything" {
			e.allHeap = true
			if n.Name == "everything" {
				e.allGlobals = true
			}
			return
		}
		if strings.HasPrefix(n.Name, "ghost__") {
			e.ghost[n.Name[7:]] = true
			return
		}
		if callee.Pkg != nil {
			if obj := callee.Pkg.Pkg.Scope().Lookup(n.Name); obj != nil {
				if v, ok := obj.(*types.Var); ok {
					key := "G:" + v.Pkg().Name() + "." + v.Name()
					for _, l := range safeLeaves(v.Type()) {
						e.heap[key+l.Path] = true
						e.heapSort[key+l.Path] = l.Sort
					}
					return
				}
			}
		}
	case *ast.StarExpr:
		if i := paramIndex(callee, n.X); i >= 0 && i < len(cc.Args) {
			if al, _, _, ok := fr.rootOf(cc.Args[i]); ok {
				markRoot(al)
				if !(al.Heap && isStructNonTime(al.Type().(*types.Pointer).Elem())) {
					return
				}
			}
			markRoot(cc.Args[i])
		}
		if t := staticType(callee, n); t != nil {
			for _, l := range safeLeaves(t) {
				e.heap[objKey(t, l.Path)] = true
				e.heapSort[objKey(t, l.Path)] = SArr(SRef, l.Sort)
			}
			return
		}
	case *ast.SelectorExpr:
		// x.f.g with x a pointer parameter: cells RootT.f.g...
		var names []string
		var cur ast.Expr = n
		for {
			s, ok := cur.(*ast.SelectorExpr)
			if !ok {
				break
			}
			names = append([]string{s.Sel.Name}, names...)
			cur = s.X
		}
		bt := staticType(callee, cur)
		if bt != nil {
			if pt, ok := bt.Underlying().(*types.Pointer); ok {
				root := pt.Elem()
				path := ""
				ft := root
				okAll := true
				for _, nm := range names {
					obj, index, _ := types.LookupFieldOrMethod(ft, true, pkgOfFunc(callee), nm)
					if obj == nil {
						okAll = false
						break
					}
					for _, i := range index {
						if p2, ok := ft.Underlying().(*types.Pointer); ok {
							// crossing a pointer: new root
							root, path, ft = p2.Elem(), "", p2.Elem()
						}
						u := ft.Underlying().(*types.Struct)
						path += "." + fieldName(u, i)
						ft = u.Field(i).Type()
					}
				}
				if okAll {
					for _, l := range safeLeaves(ft) {
						e.heap[objKey(root, path+l.Path)] = true
						e.heapSort[objKey(root, path+l.Path)] = SArr(SRef, l.Sort)
					}
					if i := paramIndex(callee, n); i >= 0 && i < len(cc.Args) {
						if al, _, _, ok := fr.rootOf(cc.Args[i]); ok {
							markRoot(al)
						}
					}
					return
				}
			}
		}
	case *ast.CallExpr:
		if id, ok := n.Fun.(*ast.Ident); ok && id.Name == "maps" {
			// resolved conservatively: all map cells
			for k := range p.initHeap {
				if strings.HasPrefix(k, "mapdom:") || strings.HasPrefix(k, "mapval:") {
					e.heap[k] = true
				}
			}
			e.allMaps = true
			return
		}
		if id, ok := n.Fun.(*ast.Ident); ok && id.Name == "entries" {
			if t := staticType(callee, n.Args[0]); t != nil {
				fr.mapEffects(t, e)
				return
			}
		}
		if id, ok := n.Fun.(*ast.Ident); ok && id.Name == "elems" {
			if t := staticType(callee, n.Args[0]); t != nil {
				if sl, ok := t.Underlying().(*types.Slice); ok {
					for _, l := range safeLeaves(sl.Elem()) {
						e.heap[elemsKey(sl.Elem(), l.Path)] = true
						e.heapSort[elemsKey(sl.Elem(), l.Path)] = SArr(SRef, SArr(SBV(64), l.Sort))
					}
					return
				}
			}
		}
	}
	e.allHeap = true
}
