package main

// Symbolic executor over go/ssa (NaiveForm) producing verification conditions.

import (
	"fmt"
	"os"
	"go/ast"
	"go/constant"
	"go/token"
	"go/types"
	"math/big"
	"sort"
	"strings"

	"golang.org/x/tools/go/ssa"
)

type State struct {
	Guard   *Term
	Locals  map[*Cell]Value
	Heap    map[string]*Term
	Ghost   map[string]*Term
	HeapTop *Term
	Epoch   int // bumped by every wholesale heap havoc: untouched cells then read a per-epoch constant
	EpochG  int // the same for package variables, which only "modifies everything" havocs
}

func (s *State) clone() *State {
	n := &State{Guard: s.Guard, HeapTop: s.HeapTop, Epoch: s.Epoch, EpochG: s.EpochG,
		Locals: make(map[*Cell]Value, len(s.Locals)),
		Heap:   make(map[string]*Term, len(s.Heap)),
		Ghost:  make(map[string]*Term, len(s.Ghost))}
	for k, v := range s.Locals {
		n.Locals[k] = v
	}
	for k, v := range s.Heap {
		n.Heap[k] = v
	}
	for k, v := range s.Ghost {
		n.Ghost[k] = v
	}
	return n
}

type Obligation struct {
	Name    string
	Kind    string
	Pos     token.Position
	Guard   *Term
	Goal    *Term
	NAssume int
	Desc    string
	Fn      string
	TimeoutS int // solver time limit for this obligation if larger than the run's default ("timeout N" in the contract)
	// filled by discharge
	Status  string // "unsat" (discharged) | "sat" | "unknown" | "timeout" | "error"
	Solver  string
	Millis  int64
	Model   map[string]string
	RawModel map[int]string
	Script  string
	ScriptQF string
	SmallScript string
	Inputs  []*Term
	Queries []*Term
	IsCover bool // vacuity/cover check: expected SAT
	Informational bool // reported in evidence, never fails the check
	Parts   []*Obligation // alternative decomposition (per return point); all unsat => discharged
}

type Proof struct {
	eng   *Engine
	fn    *ssa.Function
	fname string
	con   *Contract
	allowedHeap *State
	allowAll    bool

	assumptions []*Term
	obligations []*Obligation
	notes       map[string]bool
	errs        []string
	unmodelled  map[string]bool
	inlined     map[string]bool
	assumedLib  map[string]bool
	initHeap    map[string]*Term
	strSeen     map[int]bool
	typeInvSeen map[int]bool
	freshRefs   map[int]bool
	nonNilElems map[int]bool
	checkStores bool
	escaped     map[*Cell]bool
	bvFacts     [][]*Term
	epochs      int
	storeCount  int
	curPos      token.Pos
	specSeen    map[int]bool
	specDefs    []*Term
	inSpecUnfold bool
	heapHavocked bool
	privateBytes bool
	entry       *State
	params      map[string]Value // entry values of params by name
	paramTerms  []*Term
	heapTop0    *Term
	specApps    map[string]bool
}

func (p *Proof) errorf(format string, a ...interface{}) {
	p.errs = append(p.errs, fmt.Sprintf(format, a...))
}
func (p *Proof) note(s string) { p.notes[s] = true }

func (p *Proof) assume(guard, fact *Term) {
	t := Implies(guard, fact)
	if t == tTrue {
		return
	}
	if t.hasBV {
		// a fact about a term that mentions a quantified variable (created while evaluating the body of a
		// quantifier in a contract): it cannot be stated outside the quantifier. It is handed to the
		// enclosing quantifier, which uses it as an antecedent (type invariants hold in every state).
		if n := len(p.bvFacts); n > 0 {
			p.bvFacts[n-1] = append(p.bvFacts[n-1], t)
		}
		return
	}
	p.assumptions = append(p.assumptions, t)
}

func (p *Proof) oblige(name, kind string, pos token.Pos, guard, goal *Term, desc string) *Obligation {
	o := &Obligation{Name: name, Kind: kind, Guard: guard, Goal: goal, NAssume: len(p.assumptions), Desc: desc, Fn: p.fname}
	if p.con != nil {
		o.TimeoutS = p.con.TimeoutS
	}
	if pos.IsValid() {
		o.Pos = p.eng.fset.Position(pos)
	}
	p.obligations = append(p.obligations, o)
	// after an obligation, later code may assume it (standard VC practice); frame facts are not
	// re-assumed (quantified, and nothing later depends on them)
	if kind != "frame" {
		p.assume(guard, goal)
	}
	return o
}

// ---- heap access

func (p *Proof) heapCell(st *State, key, sortS string) *Term {
	if t, ok := st.Heap[key]; ok {
		return t
	}
	ep := st.Epoch
	if strings.HasPrefix(key, "G:") {
		ep = st.EpochG
	}
	if ep > 0 {
		// the whole heap was havocked since function entry and this cell was not touched since
		if _, ok := p.initHeap[key]; !ok {
			p.initHeap[key] = B.Const("H."+key, sortS)
		}
		t := B.Const(fmt.Sprintf("E%d.%s", ep, key), sortS)
		st.Heap[key] = t
		return t
	}
	t, ok := p.initHeap[key]
	if !ok {
		t = B.Const("H."+key, sortS)
		p.initHeap[key] = t
	}
	st.Heap[key] = t
	return t
}

func (p *Proof) newEpoch(st *State) {
	p.epochs++
	st.Epoch = p.epochs
}

func objKey(t types.Type, path string) string { return typeKey(t) + path }

// loadObj reads a value of type ft located at path inside object (root type rt) at ref.
func (p *Proof) loadObj(st *State, rt types.Type, ref *Term, path string, ft types.Type) Value {
	v := build(ft, func(l leafSpec) *Term {
		c := p.heapCell(st, objKey(rt, path+l.Path), SArr(SRef, l.Sort))
		return Select(c, ref)
	})
	// well-typedness of stored slice headers / strings / references (type invariant of the Go heap)
	if inv := p.typeInv(st, ft, v); inv != tTrue && !p.typeInvSeen[inv.id] {
		p.typeInvSeen[inv.id] = true
		p.assume(True(), inv)
	}
	return v
}

// evalFieldConstraint evaluates the two-state constraint for (old, new) leaf terms of the field.
func (p *Proof) evalFieldConstraint(fc *FieldConstraint, st *State, oldT, newT *Term) *Term {
	var pkg *types.Package
	if sp := p.eng.spkgs[fc.Pkg]; sp != nil {
		pkg = sp.Pkg
	}
	mk := func(t *Term) Value { return build(fc.ft, func(l leafSpec) *Term { return t }) }
	env := &CEnv{p: p, pkg: pkg, fn: p.fn, vars: map[string]cvar{"old": {mk(oldT), fc.ft}, "new": {mk(newT), fc.ft}}, st: st}
	return env.evalBool(fc.Expr, fc.Src)
}

// assumeFieldConstraints: after cells were havocked wholesale, pre-existing objects obey the declared
// two-state constraints.
func (p *Proof) assumeFieldConstraints(guard *Term, before, after *State) {
	for key, fc := range p.eng.fieldConByKey {
		ls := leavesOf(fc.ft)
		srt := SArr(SRef, ls[0].Sort)
		o := p.heapCell(before, key, srt)
		n := p.heapCell(after, key, srt)
		if o == n {
			continue
		}
		r := B.BoundVar("r", SRef)
		body := Implies(BVUlt(r, before.HeapTop), p.evalFieldConstraint(fc, after, Select(o, r), Select(n, r)))
		p.assume(guard, Forall([]*Term{r}, body))
		p.assumedLib["field-constraint "+fc.Key+": "+fc.Src+" (checked at every store in functions under contract)"] = true
	}
}

func (p *Proof) storeObj(st *State, rt types.Type, ref *Term, path string, ft types.Type, v Value) {
	if len(p.eng.fieldConByKey) > 0 && p.checkStores && !p.freshRefs[ref.id] {
		for _, l := range leavesOf(ft) {
			key := objKey(rt, path+l.Path)
			if fc := p.eng.fieldConByKey[key]; fc != nil {
				ts := flatten(ft, v, func(x PtrV) *Term { return p.opaquePtr(st, x) })
				cur := Select(p.heapCell(st, key, SArr(SRef, l.Sort)), ref)
				p.storeCount++
				goal := Or(BVUge(ref, p.heapTop0), p.evalFieldConstraint(fc, st, cur, ts[0]))
				p.oblige(fmt.Sprintf("%s/field-constraint@%s#%d", p.fname, fc.Key, p.storeCount), "assert", p.curPos, st.Guard, goal, "store to "+fc.Key+" of a pre-existing object obeys: "+fc.Src)
			}
		}
	}
	ls := leavesOf(ft)
	ts := flatten(ft, v, func(x PtrV) *Term { return p.opaquePtr(st, x) })
	if len(ls) != len(ts) {
		panic("storeObj leaf mismatch for " + typeKey(ft))
	}
	for i, l := range ls {
		key := objKey(rt, path+l.Path)
		c := p.heapCell(st, key, SArr(SRef, l.Sort))
		st.Heap[key] = Store(c, ref, ts[i])
	}
}

// opaquePtr converts a shaped pointer into an opaque reference keeping only nil-ness.
func (p *Proof) opaquePtr(st *State, x PtrV) *Term {
	if x.Kind == KObj {
		return x.Ref
	}
	r := B.Fresh("optr", SRef)
	p.assume(True(), Eq(Eq(r, BVInt(0, 64)), x.Null))
	return r
}

func elemsKey(et types.Type, lpath string) string { return "elems:" + typeKey(et) + lpath }

func untrackedElem(et types.Type) bool {
	_, ok := et.Underlying().(*types.Interface)
	return ok
}

func (p *Proof) loadElem(st *State, et types.Type, arr, idx *Term) Value {
	if untrackedElem(et) {
		v := freshValue(et, "anyelem")
		if iv, ok := v.(IfaceV); ok && p.nonNilElems[arr.id] {
			p.assume(True(), Neq(iv.Ref, BVInt(0, 64)))
		}
		return v
	}
	v := build(et, func(l leafSpec) *Term {
		c := p.heapCell(st, elemsKey(et, l.Path), SArr(SRef, SArr(SBV(64), l.Sort)))
		return Select(Select(c, arr), idx)
	})
	if inv := p.typeInv(st, et, v); inv != tTrue && !p.typeInvSeen[inv.id] {
		p.typeInvSeen[inv.id] = true
		p.assume(True(), inv)
	}
	if iv, ok := v.(IfaceV); ok && p.nonNilElems[arr.id] {
		p.assume(True(), Neq(iv.Ref, BVInt(0, 64)))
	}
	return v
}

func (p *Proof) storeElem(st *State, et types.Type, arr, idx *Term, v Value) {
	if untrackedElem(et) {
		return
	}
	ls := leavesOf(et)
	ts := flatten(et, v, func(x PtrV) *Term { return p.opaquePtr(st, x) })
	for i, l := range ls {
		key := elemsKey(et, l.Path)
		c := p.heapCell(st, key, SArr(SRef, SArr(SBV(64), l.Sort)))
		st.Heap[key] = Store(c, arr, Store(Select(c, arr), idx, ts[i]))
	}
}

func (p *Proof) allocRef(st *State) *Term {
	r := st.HeapTop
	st.HeapTop = BVAdd(st.HeapTop, BVInt(1, 64))
	if p.freshRefs == nil {
		p.freshRefs = map[int]bool{}
	}
	p.freshRefs[r.id] = true
	return r
}

// bumpHeapTop: an unknown number of objects were allocated.
func (p *Proof) bumpHeapTop(cur *Term, name string) *Term {
	nt := B.Fresh(name, SRef)
	p.assume(True(), And(BVUle(cur, nt), BVUlt(nt, BVConst(new(big.Int).Lsh(big1, 62), 64))))
	return nt
}

// framedSyntactically: fin is init updated only at references allocated by this call.
func (p *Proof) framedSyntactically(fin, init *Term, memo map[int]bool) bool {
	if fin == init {
		return true
	}
	if v, ok := memo[fin.id]; ok {
		return v
	}
	r := false
	switch {
	case fin.Op == "store" && len(fin.Args) == 3 && p.freshRefs[fin.Args[1].id]:
		r = p.framedSyntactically(fin.Args[0], init, memo)
	case fin.Op == "ite" && len(fin.Args) == 3:
		r = p.framedSyntactically(fin.Args[1], init, memo) && p.framedSyntactically(fin.Args[2], init, memo)
	}
	memo[fin.id] = r
	return r
}

// typeInv returns type-level invariants of a fresh value (slice bounds etc.).
func (p *Proof) typeInv(st *State, t types.Type, v Value) *Term {
	var cs []*Term
	var rec func(t types.Type, v Value)
	rec = func(t types.Type, v Value) {
		switch x := v.(type) {
		case SliceV:
			z := BVInt(0, 64)
			big := BVConst(new(big.Int).Lsh(big1, 62), 64)
			cs = append(cs, BVSle(z, x.Len), BVSle(x.Len, x.Cap), BVSle(x.Cap, big), BVSle(z, x.Off), BVSle(x.Off, big))
			// nil slice has len 0
			cs = append(cs, Implies(Eq(x.Ref, z), And(Eq(x.Len, z), Eq(x.Cap, z))))
			cs = append(cs, BVUlt(x.Ref, st.HeapTop))
		case StructV:
			u := x.Typ.Underlying().(*types.Struct)
			for i, f := range x.F {
				rec(u.Field(i).Type(), f)
			}
		case Scalar:
			if x.T.Sort == SStr {
				cs = append(cs, BVSle(BVInt(0, 64), strLen(x.T)), BVSle(strLen(x.T), BVConst(new(big.Int).Lsh(big1, 62), 64)))
			}
		case PtrV:
			if x.Kind == KObj {
				cs = append(cs, BVUlt(x.Ref, st.HeapTop))
			}
		case MapV:
			cs = append(cs, BVUlt(x.Ref, st.HeapTop))
		}
	}
	rec(t, v)
	return And(cs...)
}

var big1 = big.NewInt(1)

// ---- value helpers

func valuesEqual(a, b Value) bool {
	switch x := a.(type) {
	case Scalar:
		y, ok := b.(Scalar)
		return ok && x.T == y.T
	case StructV:
		y, ok := b.(StructV)
		if !ok || len(x.F) != len(y.F) {
			return false
		}
		for i := range x.F {
			if !valuesEqual(x.F[i], y.F[i]) {
				return false
			}
		}
		return true
	case SliceV:
		y, ok := b.(SliceV)
		return ok && x.Ref == y.Ref && x.Off == y.Off && x.Len == y.Len && x.Cap == y.Cap
	case PtrV:
		y, ok := b.(PtrV)
		if !ok || x.Kind != y.Kind || x.Null != y.Null {
			return false
		}
		switch x.Kind {
		case KObj:
			return x.Ref == y.Ref
		case KElem:
			return x.Arr == y.Arr && x.Idx == y.Idx
		case KLocal:
			return x.Cell == y.Cell && pathEq(x.Path, y.Path) && x.AIdx == y.AIdx
		case KField:
			return x.Ref == y.Ref && pathEq(x.Path, y.Path) && types.Identical(x.RootT, y.RootT)
		}
	case MapV:
		y, ok := b.(MapV)
		return ok && x.Ref == y.Ref
	case IfaceV:
		y, ok := b.(IfaceV)
		return ok && x.Ref == y.Ref
	case FuncV:
		y, ok := b.(FuncV)
		if !ok || x.Fn != y.Fn || x.Ref != y.Ref || len(x.Bindings) != len(y.Bindings) {
			return false
		}
		for i := range x.Bindings {
			if !valuesEqual(x.Bindings[i], y.Bindings[i]) {
				return false
			}
		}
		return true
	case ArrayV:
		y, ok := b.(ArrayV)
		if ok && x.Vals != nil {
			if len(x.Vals) != len(y.Vals) {
				return false
			}
			for i := range x.Vals {
				if !valuesEqual(x.Vals[i], y.Vals[i]) {
					return false
				}
			}
			return true
		}
		return ok && x.A == y.A
	case TupleV:
		y, ok := b.(TupleV)
		if !ok || len(x) != len(y) {
			return false
		}
		for i := range x {
			if !valuesEqual(x[i], y[i]) {
				return false
			}
		}
		return true
	case nil:
		return b == nil
	}
	return false
}

func pathEq(a, b []int) bool {
	if len(a) != len(b) {
		return false
	}
	for i := range a {
		if a[i] != b[i] {
			return false
		}
	}
	return true
}

func isNilPtrConst(x PtrV) bool {
	return x.Kind == KObj && x.Ref != nil && x.Ref.IsConst() && x.Ref.ConstVal().Sign() == 0
}

func (p *Proof) iteValue(st *State, c *Term, a, b Value) Value {
	if valuesEqual(a, b) {
		return a
	}
	switch x := a.(type) {
	case Scalar:
		y, ok := b.(Scalar)
		if !ok {
			if py, ok2 := b.(PtrV); ok2 {
				return Scalar{Ite(c, x.T, p.opaquePtr(st, py))}
			}
			panic(fmt.Sprintf("iteValue: Scalar vs %T", b))
		}
		return Scalar{Ite(c, x.T, y.T)}
	case StructV:
		y := b.(StructV)
		r := StructV{Typ: x.Typ, F: make([]Value, len(x.F))}
		for i := range x.F {
			r.F[i] = p.iteValue(st, c, x.F[i], y.F[i])
		}
		return r
	case SliceV:
		y := b.(SliceV)
		return SliceV{Ref: Ite(c, x.Ref, y.Ref), Off: Ite(c, x.Off, y.Off), Len: Ite(c, x.Len, y.Len), Cap: Ite(c, x.Cap, y.Cap), Elem: x.Elem}
	case PtrV:
		y, ok := b.(PtrV)
		if !ok {
			if sy, ok2 := b.(Scalar); ok2 {
				return Scalar{Ite(c, p.opaquePtr(st, x), sy.T)}
			}
			panic(fmt.Sprintf("iteValue: PtrV vs %T", b))
		}
		if x.Kind == y.Kind {
			switch x.Kind {
			case KObj:
				r := Ite(c, x.Ref, y.Ref)
				return PtrV{Kind: KObj, Elem: x.Elem, Ref: r, Null: Eq(r, BVInt(0, 64))}
			case KElem:
				if types.Identical(x.ArrElem, y.ArrElem) {
					var end *Term
					if x.End != nil && y.End != nil {
						end = Ite(c, x.End, y.End)
					}
					return PtrV{Kind: KElem, Elem: x.Elem, ArrElem: x.ArrElem, Arr: Ite(c, x.Arr, y.Arr), Idx: Ite(c, x.Idx, y.Idx), Null: Ite(c, x.Null, y.Null), End: end}
				}
			case KLocal:
				if x.Cell == y.Cell && pathEq(x.Path, y.Path) {
					r := x
					r.Null = Ite(c, x.Null, y.Null)
					return r
				}
			case KField:
				if types.Identical(x.RootT, y.RootT) && pathEq(x.Path, y.Path) {
					r := x
					r.Ref = Ite(c, x.Ref, y.Ref)
					r.Null = Ite(c, x.Null, y.Null)
					return r
				}
			}
		}
		if isNilPtrConst(x) && y.Kind != KObj {
			r := y
			r.Null = Ite(c, True(), y.Null)
			return r
		}
		if isNilPtrConst(y) && x.Kind != KObj {
			r := x
			r.Null = Ite(c, x.Null, True())
			return r
		}
		ra, rb := p.opaquePtr(st, x), p.opaquePtr(st, y)
		r := Ite(c, ra, rb)
		p.note("pointer shape lost at merge (" + typeKey(x.Elem) + ")")
		return PtrV{Kind: KObj, Elem: x.Elem, Ref: r, Null: Eq(r, BVInt(0, 64))}
	case MapV:
		y := b.(MapV)
		return MapV{Ref: Ite(c, x.Ref, y.Ref), K: x.K, V: x.V}
	case IfaceV:
		y := b.(IfaceV)
		return IfaceV{Ref: Ite(c, x.Ref, y.Ref)}
	case FuncV:
		y := b.(FuncV)
		if x.Ref == nil {
			x.Ref = B.Fresh("fn", SRef)
			p.funcCodeFact(x.Ref, x.Fn)
		}
		if y.Ref == nil {
			y.Ref = B.Fresh("fn", SRef)
			p.funcCodeFact(y.Ref, y.Fn)
		}
		return FuncV{Ref: Ite(c, x.Ref, y.Ref)}
	case ArrayV:
		y := b.(ArrayV)
		if x.N == 0 {
			return x
		}
		if x.Vals != nil {
			nv := make([]Value, len(x.Vals))
			for i := range x.Vals {
				nv[i] = p.iteValue(st, c, x.Vals[i], y.Vals[i])
			}
			return ArrayV{N: x.N, Elem: x.Elem, Vals: nv}
		}
		return ArrayV{A: Ite(c, x.A, y.A), N: x.N, Elem: x.Elem}
	case TupleV:
		y := b.(TupleV)
		r := make(TupleV, len(x))
		for i := range x {
			r[i] = p.iteValue(st, c, x[i], y[i])
		}
		return r
	case nil:
		return b
	}
	panic(fmt.Sprintf("iteValue: unsupported %T", a))
}

func (p *Proof) mergeStates(sts []*State) *State {
	if len(sts) == 1 {
		return sts[0]
	}
	// fold from the last: result = ite(g0, s0, ite(g1, s1, ... s_{n-1}))
	res := sts[len(sts)-1].clone()
	for i := len(sts) - 2; i >= 0; i-- {
		s := sts[i]
		c := s.Guard
		n := res
		for k, v := range s.Locals {
			if w, ok := n.Locals[k]; ok {
				n.Locals[k] = p.iteValue(n, c, v, w)
			} else {
				n.Locals[k] = v
			}
		}
		for k, v := range s.Heap {
			w, ok := n.Heap[k]
			if !ok {
				w = p.heapCell(n, k, v.Sort)
			}
			n.Heap[k] = Ite(c, v, w)
		}
		for k, w := range n.Heap {
			if _, ok := s.Heap[k]; !ok {
				v := p.heapCell(s, k, w.Sort)
				n.Heap[k] = Ite(c, v, w)
			}
		}
		for k, v := range s.Ghost {
			if w, ok := n.Ghost[k]; ok {
				n.Ghost[k] = Ite(c, v, w)
			} else {
				n.Ghost[k] = v
			}
		}
		n.HeapTop = Ite(c, s.HeapTop, n.HeapTop)
		n.Guard = Or(s.Guard, n.Guard)
		// a cell never read so far is arbitrary after the merge if it was havocked on either side
		if s.Epoch > n.Epoch {
			n.Epoch = s.Epoch
		}
		if s.EpochG > n.EpochG {
			n.EpochG = s.EpochG
		}
	}
	return res
}

// ---- frames

type loopInfo struct {
	head    *ssa.BasicBlock
	body    map[*ssa.BasicBlock]bool
	ord     int // ordinal in source order (1-based) within the function
	decHead []*Term
	oldSt   *State
	entrySt *State
	iterSt  *State // the state at the loop head (start of an arbitrary iteration): "iterentry(e)"
	allHeap bool
	havocked *effects
	auto    *autoRange
	autoDec *Term
}

// autoRange: the built-in invariant of a range-over-slice/string loop: -1 <= rangeindex < len(x),
// where len(x) was evaluated once before the loop (an immutable SSA register).
type autoRange struct {
	cell    *Cell
	lenT    *Term
	strIter bool
	seq     Value // the slice (or array, string) being ranged over, if it is an SSA register: "rangeexpr"
	seqT    types.Type
}

func (a *autoRange) inv(ri *Term) *Term {
	if a.strIter {
		return And(BVSle(BVInt(0, 64), ri), BVSle(ri, a.lenT))
	}
	return And(BVSle(BVInt(-1, 64), ri), BVSlt(ri, a.lenT), BVSle(BVInt(0, 64), a.lenT))
}

func (fr *Frame) autoRange(li *loopInfo) *autoRange {
	h := li.head
	if h.Comment == "rangeiter.loop" && len(h.Instrs) > 0 {
		// range over a string: the hidden byte index grows by 1..4 per iteration and is at most len(s)
		if nx, ok := h.Instrs[0].(*ssa.Next); ok && nx.IsString {
			if rs := fr.rangeIt[nx.Iter]; rs != nil && !rs.isMap {
				return &autoRange{cell: rs.cell, lenT: strLen(rs.str), strIter: true}
			}
		}
		return nil
	}
	if h.Comment != "rangeindex.loop" || len(h.Instrs) < 5 {
		return nil
	}
	ld, ok1 := h.Instrs[0].(*ssa.UnOp)
	add, ok2 := h.Instrs[1].(*ssa.BinOp)
	_, ok3 := h.Instrs[2].(*ssa.Store)
	cmp, ok4 := h.Instrs[3].(*ssa.BinOp)
	if !ok1 || !ok2 || !ok3 || !ok4 || ld.Op != token.MUL || add.Op != token.ADD || cmp.Op != token.LSS || cmp.X != add {
		return nil
	}
	al, ok := ld.X.(*ssa.Alloc)
	if !ok || al.Comment != "rangeindex" {
		return nil
	}
	cell := fr.cells[al]
	if cell == nil {
		return nil
	}
	lv, ok := fr.regs[cmp.Y]
	if !ok {
		if c, isC := cmp.Y.(*ssa.Const); isC {
			lv = fr.p.constValue(c)
		} else {
			return nil
		}
	}
	ls, ok := lv.(Scalar)
	if !ok || ls.T.Sort != SBV(64) {
		return nil
	}
	ar := &autoRange{cell: cell, lenT: ls.T}
	if lc, ok := cmp.Y.(*ssa.Call); ok && len(lc.Call.Args) == 1 {
		if v, ok := fr.regs[lc.Call.Args[0]]; ok {
			ar.seq, ar.seqT = v, lc.Call.Args[0].Type()
		}
	}
	return ar
}

// mapRangeOf: the map a `for k, v := range m` loop ranges over ("rangeexpr" in the loop's clauses).
func (fr *Frame) mapRangeOf(li *loopInfo) (MapV, bool) {
	h := li.head
	if h.Comment == "rangeiter.loop" && len(h.Instrs) > 0 {
		if nx, ok := h.Instrs[0].(*ssa.Next); ok && !nx.IsString {
			if rs := fr.rangeIt[nx.Iter]; rs != nil && rs.isMap {
				return rs.mapv, true
			}
		}
	}
	return MapV{}, false
}

type deferEntry struct {
	guard *Term
	call  *ssa.CallCommon
	args  []Value
	fnv   Value
	pos   token.Pos
	instr ssa.Instruction
}

type Frame struct {
	p        *Proof
	fn       *ssa.Function
	con      *Contract
	regs     map[ssa.Value]Value
	cells    map[*ssa.Alloc]*Cell
	bindings []Value
	prefix   string
	depth    int
	defers   []deferEntry
	loops    map[*ssa.BasicBlock]*loopInfo
	sites    map[ssa.Instruction]map[string]int // instr -> kind -> ordinal
	entrySt  *State                             // state at function entry (for old())
	args     []Value
	results  []Value // set at return evaluation for ensures
	rangeIt  map[ssa.Value]*rangeState
	predGuard map[edgeKey]*Term
	pure     bool
	usedAt   map[*CallClause]bool
	preCall  *State
	rets     []retPoint
	rangeCell *Cell // while a loop's own clauses are evaluated: that loop's range index cell ("rangeindex")
	loopEntry *State // ... and the state in which that loop was entered ("loopentry(e)")
	iterEntry *State // ... and the state at the start of the iteration that is ending ("iterentry(e)", end assertions only)
	rangeSeq  Value  // ... and the sequence it ranges over ("rangeexpr")
	rangeSeqT types.Type
}

type retPoint struct {
	st   *State
	vals []Value
}

func (p *Proof) newFrame(fn *ssa.Function, prefix string, depth int) *Frame {
	fr := &Frame{p: p, fn: fn, regs: map[ssa.Value]Value{}, cells: map[*ssa.Alloc]*Cell{}, prefix: prefix, depth: depth,
		loops: map[*ssa.BasicBlock]*loopInfo{}, sites: map[ssa.Instruction]map[string]int{}, rangeIt: map[ssa.Value]*rangeState{}}
	fr.con = p.eng.contractFor(fn)
	fr.numberSites()
	fr.findLoops()
	return fr
}

// numberSites assigns per-kind ordinals to potential obligation sites in source order.
func (fr *Frame) numberSites() {
	type site struct {
		in   ssa.Instruction
		kind string
		pos  token.Pos
		bi   int
		ii   int
	}
	var ss []site
	for bi, b := range fr.fn.Blocks {
		lastPos := token.NoPos
		for ii, in := range b.Instrs {
			if in.Pos().IsValid() {
				lastPos = in.Pos()
			}
			effPos := in.Pos()
			if !effPos.IsValid() {
				effPos = lastPos // instructions without a position sort with their predecessor
			}
			var kinds []string
			switch x := in.(type) {
			case *ssa.IndexAddr, *ssa.Index:
				kinds = []string{"bounds"}
			case *ssa.Lookup:
				if isString(x.X.Type()) {
					kinds = []string{"bounds"}
				}
			case *ssa.Slice:
				kinds = []string{"slice"}
			case *ssa.FieldAddr:
				kinds = []string{"nil"}
			case *ssa.UnOp:
				if x.Op == token.MUL {
					kinds = []string{"nil"}
				}
			case *ssa.Store:
				kinds = []string{"nil"}
			case *ssa.BinOp:
				if x.Op == token.QUO || x.Op == token.REM {
					kinds = []string{"div"}
				}
				if x.Op == token.SHL || x.Op == token.SHR {
					kinds = []string{"shift"}
				}
			case *ssa.TypeAssert:
				if !x.CommaOk {
					kinds = []string{"assertT"}
				}
			case *ssa.Panic:
				kinds = []string{"panic"}
			case *ssa.MakeSlice:
				kinds = []string{"makeslice"}
			case *ssa.Call:
				kinds = []string{"call"}
			case *ssa.Defer:
				kinds = []string{"call"}
			case *ssa.Convert:
				kinds = []string{"conv"}
			case *ssa.MapUpdate:
				kinds = []string{"nilmap"}
			}
			for _, k := range kinds {
				ss = append(ss, site{in, k, effPos, bi, ii})
			}
		}
	}
	sort.SliceStable(ss, func(i, j int) bool {
		a, b := ss[i], ss[j]
		if a.pos != b.pos {
			return a.pos < b.pos // a total order: NoPos (0) first
		}
		if a.bi != b.bi {
			return a.bi < b.bi
		}
		return a.ii < b.ii
	})
	cnt := map[string]int{}
	callCnt := map[string]int{}
	for _, s := range ss {
		if fr.sites[s.in] == nil {
			fr.sites[s.in] = map[string]int{}
		}
		if s.kind == "call" {
			var cc *ssa.CallCommon
			switch x := s.in.(type) {
			case *ssa.Call:
				cc = &x.Call
			case *ssa.Defer:
				cc = &x.Call
			}
			name := calleeShortName(cc)
			callCnt[name]++
			fr.sites[s.in]["call"] = callCnt[name]
			continue
		}
		cnt[s.kind]++
		fr.sites[s.in][s.kind] = cnt[s.kind]
	}
}

var noDynNames = map[string]bool{}

func calleeShortName(cc *ssa.CallCommon) string {
	if cc.IsInvoke() {
		return cc.Method.Name()
	}
	switch v := cc.Value.(type) {
	case *ssa.Function:
		return shortFuncName(v)
	case *ssa.Builtin:
		return v.Name()
	case *ssa.MakeClosure:
		return shortFuncName(v.Fn.(*ssa.Function))
	case *ssa.UnOp:
		// a call through a local variable holding a function (getPC := func...; getPC(x)) is named after the variable
		if a, ok := v.X.(*ssa.Alloc); ok && v.Op == token.MUL && a.Comment != "" && !noDynNames[a.Comment] {
			return a.Comment
		}
	}
	return "dyn"
}

// shortFuncName: "place", "(*mappedFile).place" -> "place"; generic instances drop type args.
func shortFuncName(f *ssa.Function) string {
	if f.Origin() != nil {
		f = f.Origin()
	}
	n := f.Name()
	return n
}

func (fr *Frame) siteName(in ssa.Instruction, kind string) string {
	ord := 0
	if m := fr.sites[in]; m != nil {
		ord = m[kind]
	}
	return fmt.Sprintf("%s%s/%s#%d", fr.prefix, fr.p.eng.funcDisplayName(fr.fn), kind, ord)
}

func (fr *Frame) findLoops() {
	fn := fr.fn
	if len(fn.Blocks) == 0 {
		return
	}
	for _, b := range fn.Blocks {
		for _, s := range b.Succs {
			if s.Dominates(b) { // back edge b -> s
				li := fr.loops[s]
				if li == nil {
					li = &loopInfo{head: s, body: map[*ssa.BasicBlock]bool{s: true}}
					fr.loops[s] = li
				}
				// add nodes reaching b without passing s
				var stack []*ssa.BasicBlock
				if !li.body[b] {
					li.body[b] = true
					stack = append(stack, b)
				}
				for len(stack) > 0 {
					x := stack[len(stack)-1]
					stack = stack[:len(stack)-1]
					for _, pr := range x.Preds {
						if !li.body[pr] {
							li.body[pr] = true
							stack = append(stack, pr)
						}
					}
				}
			}
		}
	}
	// map to AST loops
	var astLoops []ast.Node
	if syn := fn.Syntax(); syn != nil {
		var body ast.Node
		switch s := syn.(type) {
		case *ast.FuncDecl:
			body = s.Body
		case *ast.FuncLit:
			body = s.Body
		}
		if body != nil {
			ast.Inspect(body, func(n ast.Node) bool {
				switch n.(type) {
				case *ast.FuncLit:
					return n == body
				case *ast.ForStmt, *ast.RangeStmt:
					astLoops = append(astLoops, n)
				}
				return true
			})
		}
	}
	for _, li := range fr.loops {
		lo, hi := token.Pos(0), token.Pos(0)
		// positions of the header block (loop condition / range step) identify the statement best
		for _, in := range li.head.Instrs {
			if ps := in.Pos(); ps.IsValid() {
				if lo == 0 || ps < lo {
					lo = ps
				}
				if ps > hi {
					hi = ps
				}
			}
		}
		if lo == 0 && len(li.head.Instrs) > 0 {
			// range over a map or string: the header's Next has no position; its iterator is
			// created at the "for" keyword of the range statement
			if nx, ok := li.head.Instrs[0].(*ssa.Next); ok {
				if rg, ok := nx.Iter.(*ssa.Range); ok && rg.Pos().IsValid() {
					lo, hi = rg.Pos(), rg.Pos()
				}
			}
		}
		var bodyBlocks []*ssa.BasicBlock
		for b := range li.body {
			bodyBlocks = append(bodyBlocks, b)
		}
		sort.Slice(bodyBlocks, func(i, j int) bool { return bodyBlocks[i].Index < bodyBlocks[j].Index })
		for _, b := range bodyBlocks {
			if lo != 0 {
				break
			}
			for _, in := range b.Instrs {
				if ps := in.Pos(); ps.IsValid() {
					if lo == 0 || ps < lo {
						lo = ps
					}
					if ps > hi {
						hi = ps
					}
				}
			}
		}
		best := -1
		for i, n := range astLoops {
			if n.Pos() <= lo && hi < n.End() {
				if best < 0 || (astLoops[best].End()-astLoops[best].Pos()) > (n.End()-n.Pos()) {
					best = i
				}
			}
		}
		li.ord = best + 1
		if os.Getenv("GOVC_DEBUG_LOOPS") != "" {
			fmt.Printf("loop head %d: lo=%v hi=%v best=%d\n", li.head.Index, fr.p.eng.fset.Position(lo), fr.p.eng.fset.Position(hi), best)
			for i, n := range astLoops {
				fmt.Printf("   ast loop %d: %v .. %v\n", i, fr.p.eng.fset.Position(n.Pos()), fr.p.eng.fset.Position(n.End()))
			}
		}
	}
}

func (fr *Frame) blockOrder() []*ssa.BasicBlock {
	fn := fr.fn
	visited := map[*ssa.BasicBlock]bool{}
	var post []*ssa.BasicBlock
	var dfs func(b *ssa.BasicBlock)
	dfs = func(b *ssa.BasicBlock) {
		visited[b] = true
		for _, s := range b.Succs {
			if s.Dominates(b) {
				continue // back edge
			}
			if !visited[s] {
				dfs(s)
			}
		}
		post = append(post, b)
	}
	dfs(fn.Blocks[0])
	if fn.Recover != nil && !visited[fn.Recover] {
		// recover block is not executed (panic unwinding is not modelled)
	}
	for i, j := 0, len(post)-1; i < j; i, j = i+1, j-1 {
		post[i], post[j] = post[j], post[i]
	}
	return post
}

// run symbolically executes fn from state st. Returns the merged exit state and results.
func (p *Proof) run(fr *Frame, args []Value, st *State) (*State, []Value) {
	fn := fr.fn
	if len(fn.Blocks) == 0 {
		p.errorf("%s: no body", fn.String())
		return nil, nil
	}
	if fr.depth > 8 {
		p.errorf("%s: inline depth exceeded", fn.String())
		return nil, nil
	}
	fr.args = args
	for i, prm := range fn.Params {
		if i < len(args) {
			fr.regs[prm] = args[i]
		}
	}
	for i, fv := range fn.FreeVars {
		if i < len(fr.bindings) {
			fr.regs[fv] = fr.bindings[i]
		}
	}
	fr.entrySt = st.clone()
	pending := map[*ssa.BasicBlock][]*State{fn.Blocks[0]: {st}}
	var rets []retPoint
	for _, b := range fr.blockOrder() {
		sts := pending[b]
		delete(pending, b)
		if len(sts) == 0 {
			continue
		}
		cur := p.mergeStates(sts)
		if cur.Guard == tFalse {
			continue
		}
		if li := fr.loops[b]; li != nil {
			cur = fr.loopHead(li, cur)
		}
		alive := true
		for _, in := range b.Instrs {
			if len(p.errs) > 20 {
				return nil, nil
			}
			switch x := in.(type) {
			case *ssa.If:
				c := fr.val(x.Cond).(Scalar).T
				t := cur.clone()
				t.Guard = And(cur.Guard, c)
				e := cur
				e.Guard = And(cur.Guard, Not(c))
				fr.edge(pending, b, b.Succs[0], t)
				fr.edge(pending, b, b.Succs[1], e)
				alive = false
			case *ssa.Jump:
				fr.edge(pending, b, b.Succs[0], cur)
				alive = false
			case *ssa.Return:
				var vals []Value
				for _, r := range x.Results {
					vals = append(vals, fr.val(r))
				}
				rets = append(rets, retPoint{cur, vals})
				alive = false
			case *ssa.Panic:
				if why, ok := fr.allowedPanic(in); ok {
					p.note("documented misuse panic not an obligation: " + fr.siteName(in, "panic") + " (" + why + ")")
				} else {
					p.oblige(fr.siteName(in, "panic"), "panic", x.Pos(), cur.Guard, False(), "explicit panic is unreachable")
				}
				alive = false
			default:
				fr.exec(in, cur)
			}
			if !alive {
				break
			}
		}
	}
	fr.rets = rets
	if len(rets) == 0 {
		s := st.clone()
		s.Guard = False()
		return s, nil
	}
	sts := make([]*State, len(rets))
	for i, r := range rets {
		sts[i] = r.st
	}
	// merge result values with same guard structure
	vals := rets[len(rets)-1].vals
	for i := len(rets) - 2; i >= 0; i-- {
		nv := make([]Value, len(vals))
		for k := range vals {
			nv[k] = p.iteValue(rets[i].st, rets[i].st.Guard, rets[i].vals[k], vals[k])
		}
		vals = nv
	}
	out := p.mergeStates(sts)
	return out, vals
}

type edgeKey struct{ from, to *ssa.BasicBlock }

func (fr *Frame) edge(pending map[*ssa.BasicBlock][]*State, from, to *ssa.BasicBlock, st *State) {
	if st.Guard == tFalse {
		return
	}
	if fr.predGuard == nil {
		fr.predGuard = map[edgeKey]*Term{}
	}
	fr.predGuard[edgeKey{from, to}] = st.Guard
	if to.Dominates(from) {
		if li := fr.loops[to]; li != nil {
			fr.backEdge(li, st)
			return
		}
	}
	pending[to] = append(pending[to], st)
}

func (fr *Frame) allowedPanic(in ssa.Instruction) (string, bool) {
	if fr.con == nil || fr.con.Allows == nil {
		return "", false
	}
	ord := 0
	if m := fr.sites[in]; m != nil {
		ord = m["panic"]
	}
	why, ok := fr.con.Allows[fmt.Sprintf("panic#%d", ord)]
	return why, ok
}

// ---- loops

func (fr *Frame) loopClauses(li *loopInfo) (invs []*LoopClause, decs []*LoopClause) {
	if fr.con == nil {
		return nil, nil
	}
	for _, lc := range fr.con.Loops {
		if lc.Ord != li.ord {
			continue
		}
		switch lc.Kind {
		case "invariant":
			invs = append(invs, lc)
		case "decreases":
			decs = append(decs, lc)
		}
	}
	return
}

func (fr *Frame) loopName(li *loopInfo, kind string, k int) string {
	return fmt.Sprintf("%s%s/%s@loop%d#%d", fr.prefix, fr.p.eng.funcDisplayName(fr.fn), kind, li.ord, k)
}

func (fr *Frame) loopHead(li *loopInfo, st *State) *State {
	p := fr.p
	invs, decs := fr.loopClauses(li)
	if fr.con != nil {
		fr.con.usedLoops[li.ord] = true
	}
	headPos := loopPos(li)
	fr.loopEntry = st
	defer func() { fr.loopEntry = nil }()
	if a := fr.autoRange(li); a != nil && !a.strIter {
		fr.rangeCell, fr.rangeSeq, fr.rangeSeqT = a.cell, a.seq, a.seqT
		defer func() { fr.rangeCell, fr.rangeSeq, fr.rangeSeqT = nil, nil, nil }()
	} else if mv, ok := fr.mapRangeOf(li); ok {
		fr.rangeSeq, fr.rangeSeqT = mv, types.NewMap(mv.K, mv.V)
		defer func() { fr.rangeSeq, fr.rangeSeqT = nil, nil }()
	}
	for _, lc := range invs {
		g := fr.evalBool(lc.Expr, st, lc.Src)
		p.oblige(fr.loopName(li, "inv-init", lc.N), "inv-init", headPos, st.Guard, g, "loop invariant holds on entry: "+lc.Src)
	}
	if fr.con != nil {
		k := 0
		for _, lc := range fr.con.Loops {
			if lc.Ord == li.ord && lc.Kind == "entryassert" {
				k++
				g := fr.evalBool(lc.Expr, st, lc.Src)
				p.oblige(fr.loopName(li, "entry-assert", k), "assert", headPos, st.Guard, g, "when the loop is entered: "+lc.Src)
			}
		}
	}
	li.entrySt = st
	auto := fr.autoRange(li)
	if auto != nil {
		ri := st.Locals[auto.cell].(Scalar).T
		p.oblige(fr.loopName(li, "auto-inv-init", 1), "inv-init", headPos, st.Guard, auto.inv(ri), "range loop index invariant holds on entry")
	}
	// havoc
	eff := fr.loopEffects(li)
	if os.Getenv("GOVC_DEBUG") != "" {
		var hs, cs []string
		for k := range eff.heap {
			hs = append(hs, k)
		}
		for c := range eff.cells {
			cs = append(cs, c.Name)
		}
		sort.Strings(hs)
		sort.Strings(cs)
		fmt.Printf("   loop %d of %s: allHeap=%v heap=%v cells=%v\n", li.ord, fr.fn.Name(), eff.allHeap, hs, cs)
	}
	// make sure every heap cell the loop may write has an initial value to frame against
	for key := range eff.heap {
		if _, ok := p.initHeap[key]; !ok {
			if srt, ok := eff.heapSort[key]; ok {
				p.heapCell(st, key, srt)
			}
		}
	}
	n := st.clone()
	for cell := range eff.cells {
		if old, ok := n.Locals[cell]; ok {
			if cell.Typ == nil {
				if sc, isS := old.(Scalar); isS {
					n.Locals[cell] = Scalar{B.Fresh("lp."+sanitize(cell.Name), sc.T.Sort)}
				}
				continue
			}
			v := freshValue(cell.Typ, "lp."+cell.Name)
			n.Locals[cell] = v
		}
	}
	for key := range eff.heap {
		if old, ok := n.Heap[key]; ok {
			n.Heap[key] = B.Fresh("lpH."+key, old.Sort)
		} else if init, ok := p.initHeap[key]; ok {
			n.Heap[key] = B.Fresh("lpH."+key, init.Sort)
		} else if srt, ok := eff.heapSort[key]; ok {
			n.Heap[key] = B.Fresh("lpH."+key, srt)
		}
	}
	if eff.allMaps && !eff.allHeap {
		for key, old := range n.Heap {
			if strings.HasPrefix(key, "mapdom:") || strings.HasPrefix(key, "mapval:") {
				n.Heap[key] = B.Fresh("lpH."+key, old.Sort)
			}
		}
	}
	if eff.allHeap {
		for key, old := range n.Heap {
			if strings.HasPrefix(key, "G:") && !eff.allGlobals && !eff.heap[key] {
				continue // package variables are written only by explicit stores or "modifies everything"
			}
			n.Heap[key] = B.Fresh("lpH."+key, old.Sort)
		}
		for key, init := range p.initHeap {
			if strings.HasPrefix(key, "G:") && !eff.allGlobals && !eff.heap[key] {
				continue
			}
			if _, ok := n.Heap[key]; !ok {
				n.Heap[key] = B.Fresh("lpH."+key, init.Sort)
			}
		}
		li.allHeap = true
		p.newEpoch(n)
		if eff.allGlobals {
			n.EpochG = n.Epoch
		}
	}
	for g := range eff.ghost {
		if old, ok := n.Ghost[g]; ok {
			n.Ghost[g] = B.Fresh("lpG."+g, old.Sort)
		}
	}
	if eff.alloc {
		n.HeapTop = p.bumpHeapTop(st.HeapTop, "lp.heaptop")
	}
	reach := B.Fresh("loop_reach", SBool)
	n.Guard = reach
	p.assume(reach, st.Guard)
	p.assumeFieldConstraints(reach, st, n)
	fr.assumeLoopFrames(li, st, n, eff, reach)
	// automatic frame invariant: locations outside the function's modifies clause keep their entry values.
	// Only needed for cells that are still wholesale-havocked (unknown writers).
	if fr.depth == 0 && p.con != nil && !p.eng.noLoopFrame {
		for _, fc := range p.frameClauses(st, eff) {
			p.oblige(fr.loopName(li, "frame-init", fc.ord), "frame", headPos, st.Guard, fc.goal(st), "frame holds on loop entry for "+fc.key)
			if cur, ok := n.Heap[fc.key]; ok && len(cur.Args) == 0 && strings.HasPrefix(cur.Op, "lpH.") {
				p.assume(reach, fc.goal(n))
			}
		}
	}

	for cell := range eff.cells {
		if v, ok := n.Locals[cell]; ok && cell.Typ != nil {
			p.assume(reach, p.typeInv(n, cell.Typ, v))
		}
	}
	var facts []*Term
	for _, lc := range invs {
		g := fr.evalBool(lc.Expr, n, lc.Src)
		p.assume(reach, g)
		facts = append(facts, g)
	}
	if auto != nil {
		if v, ok := n.Locals[auto.cell]; ok {
			ri := v.(Scalar).T
			p.assume(reach, auto.inv(ri))
			li.autoDec = BVSub(auto.lenT, ri)
		}
	}
	li.auto = auto
	p.propagateEqs(n, facts, nil)
	li.decHead = nil
	for _, lc := range decs {
		v, _ := fr.evalContract(lc.Expr, n, lc.Src)
		li.decHead = append(li.decHead, v.(Scalar).T)
	}
	li.havocked = eff
	li.iterSt = n.clone()
	if fr.depth == 0 {
		lo := &Obligation{Name: fr.loopName(li, "vacuity", 1), Kind: "vacuity", Guard: reach, Goal: False(), NAssume: len(p.assumptions), Desc: "loop invariant and assumptions are satisfiable at the loop head", Fn: p.fname, IsCover: true}
		lo.Pos = p.eng.fset.Position(headPos)
		p.obligations = append(p.obligations, lo)
	}
	return n
}

func loopPos(li *loopInfo) token.Pos {
	lo := token.Pos(0)
	for b := range li.body {
		for _, in := range b.Instrs {
			if ps := in.Pos(); ps.IsValid() && (lo == 0 || ps < lo) {
				lo = ps
			}
		}
	}
	return lo
}

func (fr *Frame) backEdge(li *loopInfo, st *State) {
	p := fr.p
	invs, decs := fr.loopClauses(li)
	pos := loopPos(li)
	fr.loopEntry = li.entrySt
	fr.iterEntry = li.iterSt
	defer func() { fr.loopEntry = nil; fr.iterEntry = nil }()
	if li.auto != nil && !li.auto.strIter {
		fr.rangeCell, fr.rangeSeq, fr.rangeSeqT = li.auto.cell, li.auto.seq, li.auto.seqT
		defer func() { fr.rangeCell, fr.rangeSeq, fr.rangeSeqT = nil, nil, nil }()
	} else if mv, ok := fr.mapRangeOf(li); ok {
		fr.rangeSeq, fr.rangeSeqT = mv, types.NewMap(mv.K, mv.V)
		defer func() { fr.rangeSeq, fr.rangeSeqT = nil, nil }()
	}
	if fr.con != nil {
		k := 0
		for _, lc := range fr.con.Loops {
			if lc.Ord == li.ord && lc.Kind == "endassert" {
				k++
				g, ok := fr.tryEvalBool(lc.Expr, st, lc.Src)
				if !ok {
					// this back edge leaves the body before the locals named by the assertion exist (continue)
					p.note("loop-end assertion skipped on an edge where its locals are not declared: " + lc.Src)
					continue
				}
				p.oblige(fr.loopName(li, "end-assert", k), "assert", pos, st.Guard, g, "at the end of every iteration: "+lc.Src)
			}
		}
	}
	for _, lc := range invs {
		g := fr.evalBool(lc.Expr, st, lc.Src)
		p.oblige(fr.loopName(li, "inv-pres", lc.N), "inv-pres", pos, st.Guard, g, "loop invariant preserved: "+lc.Src)
	}
	if li.auto != nil {
		if v, ok := st.Locals[li.auto.cell]; ok {
			ri := v.(Scalar).T
			p.oblige(fr.loopName(li, "auto-inv-pres", 1), "inv-pres", pos, st.Guard, li.auto.inv(ri), "range loop index invariant preserved")
			m := BVSub(li.auto.lenT, ri)
			p.oblige(fr.loopName(li, "auto-dec", 1), "dec", pos, st.Guard, And(BVSle(BVInt(0, 64), li.autoDec), BVSlt(m, li.autoDec)), "range loop terminates: len - index decreases")
		}
	}
	if fr.depth == 0 && p.con != nil && li.havocked != nil && !p.eng.noLoopFrame {
		for _, fc := range p.frameClauses(st, li.havocked) {
			p.oblige(fr.loopName(li, "frame-pres", fc.ord), "frame", pos, st.Guard, fc.goal(st), "frame preserved by the loop body for "+fc.key)
		}
	}
	for k, lc := range decs {
		v, t := fr.evalContract(lc.Expr, st, lc.Src)
		m := v.(Scalar).T
		h := li.decHead[k]
		_ = t
		goal := And(BVSle(BVInt(0, m.Width()), h), BVSlt(m, h))
		p.oblige(fr.loopName(li, "dec", lc.N), "dec", pos, st.Guard, goal, "loop measure decreases and is bounded below: "+lc.Src)
	}
}

// ---- instruction semantics

func (fr *Frame) val(v ssa.Value) Value {
	switch x := v.(type) {
	case *ssa.Const:
		return fr.p.constValue(x)
	case *ssa.Function:
		return FuncV{Fn: x}
	case *ssa.Global:
		// address of a package-level variable
		t := x.Type().(*types.Pointer).Elem()
		pv := PtrV{Kind: KGlobal, Elem: t, RootT: t, Null: False(), GKey: "G:" + x.Pkg.Pkg.Name() + "." + x.Name()}
		if _, isIface := t.Underlying().(*types.Interface); isIface && fr.p.eng.globalNonNil(x.Pkg, x.Name()) {
			pv.NonNilGlobal = true
		}
		return pv
	case *ssa.Builtin:
		return FuncV{}
	}
	if r, ok := fr.regs[v]; ok {
		return r
	}
	fr.p.errorf("%s: value %s (%T) not evaluated", fr.fn.Name(), v.Name(), v)
	t := v.Type()
	return freshValue(t, "undef")
}

func (p *Proof) constValue(c *ssa.Const) Value {
	t := c.Type()
	if c.Value == nil {
		// zero value / nil
		if b, ok := t.Underlying().(*types.Basic); ok && b.Kind() == types.UntypedNil {
			return PtrV{Kind: KObj, Ref: BVInt(0, 64), Null: True()}
		}
		return zeroValue(t)
	}
	if w, _, ok := intInfo(t); ok {
		if v, ok2 := constant.Val(constant.ToInt(c.Value)).(*big.Int); ok2 {
			return Scalar{BVConst(v, w)}
		}
		if iv, exact := constant.Int64Val(constant.ToInt(c.Value)); exact {
			return Scalar{BVInt(iv, w)}
		}
		uv, _ := constant.Uint64Val(constant.ToInt(c.Value))
		return Scalar{BVUint(uv, w)}
	}
	switch {
	case isBool(t):
		if constant.BoolVal(c.Value) {
			return Scalar{True()}
		}
		return Scalar{False()}
	case isString(t):
		return Scalar{strLit(constant.StringVal(c.Value))}
	case isFloat(t):
		f, _ := constant.Float64Val(c.Value)
		return Scalar{floatConst(f)}
	}
	p.errorf("unsupported constant %s of type %s", c.String(), typeKey(t))
	return freshValue(t, "const")
}

func (fr *Frame) exec(in ssa.Instruction, st *State) {
	p := fr.p
	defer func() {
		if r := recover(); r != nil {
			if s, ok := r.(string); ok && strings.HasPrefix(s, "unsupported") {
				p.errorf("%s: %s at %s", fr.fn.Name(), s, p.eng.fset.Position(in.Pos()))
				if v, ok := in.(ssa.Value); ok {
					fr.regs[v] = safeFresh(v.Type())
				}
				return
			}
			panic(fmt.Sprintf("%v\n  while executing %s: %s at %s", r, fr.fn.Name(), in.String(), p.eng.fset.Position(in.Pos())))
		}
	}()
	switch x := in.(type) {
	case *ssa.DebugRef:
	case *ssa.Alloc:
		t := x.Type().(*types.Pointer).Elem()
		_, isStruct := t.Underlying().(*types.Struct)
		if x.Heap && isStruct && !isTimeType(t) {
			ref := p.allocRef(st)
			p.storeObj(st, t, ref, "", t, zeroValue(t))
			fr.regs[x] = PtrV{Kind: KObj, Elem: t, Ref: ref, Null: False()}
			return
		}
		cell := NewCell(x.Comment, t)
		fr.cells[x] = cell
		st.Locals[cell] = zeroValue(t)
		fr.regs[x] = PtrV{Kind: KLocal, Elem: t, Cell: cell, RootT: t, Null: False()}
	case *ssa.Store:
		addr := fr.val(x.Addr)
		p.curPos = x.Pos()
		p.checkStores = true
		fr.store(in, st, addr, fr.val(x.Val), x.Val.Type())
		p.checkStores = false
	case *ssa.UnOp:
		fr.regs[x] = fr.unop(x, st)
	case *ssa.BinOp:
		fr.regs[x] = fr.binop(x, st)
	case *ssa.FieldAddr:
		fr.regs[x] = fr.fieldAddr(x, st)
	case *ssa.Field:
		if sc, ok := fr.val(x.X).(Scalar); ok {
			// field of an opaque library struct value: an uninterpreted function of the value
			st0 := x.X.Type().Underlying().(*types.Struct)
			ft := st0.Field(x.Field).Type()
			nm := "opq." + typeKey(x.X.Type()) + "." + fieldName(st0, x.Field)
			fv := build(ft, func(l leafSpec) *Term {
				fn := B.DeclareFun(nm+l.Path, []string{SRef}, l.Sort)
				return B.App(fn, l.Sort, sc.T)
			})
			p.assume(True(), p.typeInv(st, ft, fv))
			fr.regs[x] = fv
			return
		}
		sv := fr.val(x.X).(StructV)
		fr.regs[x] = sv.F[x.Field]
	case *ssa.IndexAddr:
		fr.regs[x] = fr.indexAddr(x, st)
	case *ssa.Index:
		fr.regs[x] = fr.index(x, st)
	case *ssa.Lookup:
		fr.regs[x] = fr.lookup(x, st)
	case *ssa.Slice:
		fr.regs[x] = fr.slice(x, st)
	case *ssa.Convert:
		fr.regs[x] = fr.convert(x, st)
	case *ssa.ChangeType:
		fr.regs[x] = retag(fr.val(x.X), x.Type())
	case *ssa.MakeInterface:
		v := fr.val(x.X)
		if pv, ok := v.(PtrV); ok && pv.Kind == KLocal {
			// the address of a local escapes into an interface value (e.g. fmt.Sscanf(..., &x)): callees
			// without a contract may write through it
			if p.escaped == nil {
				p.escaped = map[*Cell]bool{}
			}
			p.escaped[pv.Cell] = true
		}
		r := B.Fresh("iface", SRef)
		p.assume(True(), Neq(r, BVInt(0, 64)))
		tid := p.eng.typeID(x.X.Type())
		p.assume(True(), Eq(dynType(r), tid))
		fr.regs[x] = IfaceV{Ref: r, Dyn: v, DynT: x.X.Type()}
		// what a later type assertion (or x.(T) in a contract) reads back from this interface value
		// when the static knowledge of its content is lost, e.g. after it went through a slice
		if bt, ok := x.X.Type().Underlying().(*types.Basic); ok && bt.Kind() != types.UnsafePointer {
			if sc, ok := v.(Scalar); ok {
				func() {
					defer func() { recover() }()
					ls := leavesOf(x.X.Type())
					if len(ls) == 1 && ls[0].Sort == sc.T.Sort {
						fn := B.DeclareFun("payload."+typeKey(x.X.Type())+ls[0].Path, []string{SRef}, ls[0].Sort)
						p.assume(True(), Eq(B.App(fn, ls[0].Sort, r), sc.T))
					}
				}()
			}
		}
	case *ssa.ChangeInterface:
		fr.regs[x] = fr.val(x.X)
	case *ssa.TypeAssert:
		fr.regs[x] = fr.typeAssert(x, st)
	case *ssa.Extract:
		tv := fr.val(x.Tuple).(TupleV)
		fr.regs[x] = tv[x.Index]
	case *ssa.Call:
		fr.regs[x] = fr.call(in, &x.Call, st, x.Type())
	case *ssa.Defer:
		var args []Value
		for _, a := range x.Call.Args {
			args = append(args, fr.val(a))
		}
		var fnv Value
		if !x.Call.IsInvoke() {
			fnv = fr.val(x.Call.Value)
		} else {
			fnv = fr.val(x.Call.Value)
		}
		fr.defers = append(fr.defers, deferEntry{guard: st.Guard, call: &x.Call, args: args, fnv: fnv, pos: x.Pos(), instr: in})
	case *ssa.RunDefers:
		fr.runDefers(st)
	case *ssa.MakeClosure:
		var bs []Value
		for _, b := range x.Bindings {
			bs = append(bs, fr.val(b))
		}
		fr.regs[x] = FuncV{Fn: x.Fn.(*ssa.Function), Bindings: bs}
	case *ssa.MakeSlice:
		fr.regs[x] = fr.makeSlice(x, st)
	case *ssa.MakeMap:
		fr.regs[x] = fr.makeMap(x, st)
	case *ssa.MapUpdate:
		fr.mapUpdate(x, st)
	case *ssa.Range:
		fr.regs[x] = fr.rangeInit(x, st)
	case *ssa.Next:
		fr.regs[x] = fr.rangeNext(x, st)
	case *ssa.Phi:
		fr.regs[x] = fr.phi(x, st)
	case *ssa.Go:
		p.note("goroutine body not verified: " + calleeShortName(&x.Call))
	case *ssa.Send, *ssa.Select:
		panic("unsupported instruction " + in.String())
	default:
		panic(fmt.Sprintf("unsupported instruction %T", in))
	}
}

func safeFresh(t types.Type) (v Value) {
	defer func() {
		if r := recover(); r != nil {
			v = Scalar{B.Fresh("undef", SRef)}
		}
	}()
	if tt, ok := t.(*types.Tuple); ok {
		var tv TupleV
		for i := 0; i < tt.Len(); i++ {
			tv = append(tv, freshValue(tt.At(i).Type(), "undef"))
		}
		return tv
	}
	return freshValue(t, "undef")
}

func retag(v Value, t types.Type) Value {
	switch x := v.(type) {
	case StructV:
		x.Typ = t
		return x
	case PtrV:
		if pt, ok := t.Underlying().(*types.Pointer); ok {
			x.Elem = pt.Elem()
		}
		return x
	}
	return v
}

func (fr *Frame) phi(x *ssa.Phi, st *State) Value {
	// Phi nodes are rare in NaiveForm (&&, || short-circuit values). Edges' guards are not tracked
	// per predecessor here, so rebuild from predecessor guards recorded at edge time.
	b := x.Block()
	var res Value
	for i := len(x.Edges) - 1; i >= 0; i-- {
		pg, ok := fr.predGuard[edgeKey{b.Preds[i], b}]
		if !ok {
			continue
		}
		v := fr.val(x.Edges[i])
		if res == nil {
			res = v
		} else {
			res = fr.p.iteValue(st, pg, v, res)
		}
	}
	if res == nil {
		return freshValue(x.Type(), "phi")
	}
	return res
}

// ---- memory operations

func project(v Value, path []int) Value {
	for _, i := range path {
		sv, ok := v.(StructV)
		if !ok {
			panic("unsupported: field access inside an opaque library value")
		}
		v = sv.F[i]
	}
	return v
}

// projectTyped is project, but fields of opaque library values become uninterpreted functions of the value.
func (p *Proof) projectTyped(st *State, v Value, t types.Type, path []int) Value {
	for _, i := range path {
		u := t.Underlying().(*types.Struct)
		ft := u.Field(i).Type()
		switch x := v.(type) {
		case StructV:
			v = x.F[i]
		case Scalar:
			nm := "opq." + typeKey(t) + "." + fieldName(u, i)
			fv := build(ft, func(l leafSpec) *Term {
				fn := B.DeclareFun(nm+l.Path, []string{SRef}, l.Sort)
				return B.App(fn, l.Sort, x.T)
			})
			p.assume(True(), p.typeInv(st, ft, fv))
			v = fv
		default:
			panic("unsupported: field access on this value")
		}
		t = ft
	}
	return v
}

func inject(v Value, path []int, nv Value) Value {
	if len(path) == 0 {
		return nv
	}
	sv := v.(StructV)
	nf := make([]Value, len(sv.F))
	copy(nf, sv.F)
	nf[path[0]] = inject(sv.F[path[0]], path[1:], nv)
	return StructV{Typ: sv.Typ, F: nf}
}

func pathString(rt types.Type, path []int) (string, types.Type) {
	s := ""
	t := rt
	for _, i := range path {
		u := t.Underlying().(*types.Struct)
		s += "." + fieldName(u, i)
		t = u.Field(i).Type()
	}
	return s, t
}

// extentCheck: an access of n bytes through a pointer obtained by reinterpreting &s[i] of a byte slice
// stays inside that slice (the index expression itself only guarantees the first byte).
func (fr *Frame) extentCheck(in ssa.Instruction, st *State, ptr PtrV, nbytes int, base string) {
	if in == nil || ptr.Kind != KElem || ptr.End == nil || !isByte(ptr.ArrElem) || nbytes <= 1 {
		return
	}
	fr.p.oblige(fr.siteName(in, base)+".extent", "bounds", in.Pos(), st.Guard, BVUle(BVAdd(ptr.Idx, BVInt(int64(nbytes), 64)), ptr.End),
		fmt.Sprintf("%d-byte access through a reinterpreted element pointer stays inside the slice", nbytes))
}

func (fr *Frame) nilCheck(in ssa.Instruction, st *State, ptr PtrV) {
	if ptr.Null == tFalse {
		return
	}
	fr.p.oblige(fr.siteName(in, "nil"), "nil", in.Pos(), st.Guard, Not(ptr.Null), "nil pointer dereference")
}

func (fr *Frame) load(in ssa.Instruction, st *State, addr Value, t types.Type) Value {
	p := fr.p
	ptr, ok := addr.(PtrV)
	if !ok {
		panic(fmt.Sprintf("unsupported load through %T", addr))
	}
	fr.nilCheck(in, st, ptr)
	switch ptr.Kind {
	case KLocal:
		v, ok := st.Locals[ptr.Cell]
		if !ok {
			panic("unsupported: load of unknown cell " + ptr.Cell.Name)
		}
		return arrayProj(fr.p.projectTyped(st, v, ptr.RootT, ptr.Path), ptr.AIdx)
	case KGlobal:
		ps, ft := pathString(ptr.RootT, ptr.Path)
		v := build(ft, func(l leafSpec) *Term { return p.heapCell(st, ptr.GKey+ps+l.Path, l.Sort) })
		if iv, ok := v.(IfaceV); ok && ptr.NonNilGlobal {
			p.assume(True(), Neq(iv.Ref, BVInt(0, 64)))
			p.note("package variable " + ptr.GKey[2:] + " is initialised once with a non-nil error and never reassigned")
		}
		return arrayProj(v, ptr.AIdx)
	case KField:
		ps, ft := pathString(ptr.RootT, ptr.Path)
		return arrayProj(p.loadObj(st, ptr.RootT, ptr.Ref, ps, ft), ptr.AIdx)
	case KObj:
		if ptr.Elem == nil {
			panic("unsupported: load through untyped pointer")
		}
		return p.loadObj(st, ptr.Elem, ptr.Ref, "", ptr.Elem)
	case KElem:
		if isByte(ptr.ArrElem) && !types.Identical(ptr.Elem, ptr.ArrElem) {
			if w, ok := castWidth(t); ok {
				fr.extentCheck(in, st, ptr, w/8, "nil")
			}
		}
		return p.loadElemCast(st, ptr, t)
	}
	panic("unsupported pointer kind")
}

func (fr *Frame) store(in ssa.Instruction, st *State, addr Value, v Value, vt types.Type) {
	p := fr.p
	ptr, ok := addr.(PtrV)
	if !ok {
		panic(fmt.Sprintf("unsupported store through %T", addr))
	}
	fr.nilCheck(in, st, ptr)
	// normalise nil constants to the static type
	v = coerceNil(v, ptr.Elem)
	switch ptr.Kind {
	case KLocal:
		old := st.Locals[ptr.Cell]
		if ptr.AIdx != nil {
			v = arrayInj(project(old, ptr.Path), ptr.AIdx, v, func(x PtrV) *Term { return p.opaquePtr(st, x) })
		}
		st.Locals[ptr.Cell] = inject(old, ptr.Path, v)
	case KGlobal:
		ps, ft := pathString(ptr.RootT, ptr.Path)
		if ptr.AIdx != nil {
			cur := build(ft, func(l leafSpec) *Term { return p.heapCell(st, ptr.GKey+ps+l.Path, l.Sort) })
			v = arrayInj(cur, ptr.AIdx, v, func(x PtrV) *Term { return p.opaquePtr(st, x) })
		}
		ls := leavesOf(ft)
		ts := flatten(ft, v, func(x PtrV) *Term { return p.opaquePtr(st, x) })
		for i, l := range ls {
			p.heapCell(st, ptr.GKey+ps+l.Path, l.Sort)
			st.Heap[ptr.GKey+ps+l.Path] = ts[i]
		}
	case KField:
		ps, ft := pathString(ptr.RootT, ptr.Path)
		if ptr.AIdx != nil {
			v = arrayInj(p.loadObj(st, ptr.RootT, ptr.Ref, ps, ft), ptr.AIdx, v, func(x PtrV) *Term { return p.opaquePtr(st, x) })
		}
		p.storeObj(st, ptr.RootT, ptr.Ref, ps, ft, v)
	case KObj:
		p.storeObj(st, ptr.Elem, ptr.Ref, "", ptr.Elem, v)
	case KElem:
		if isByte(ptr.ArrElem) && !types.Identical(ptr.Elem, ptr.ArrElem) {
			if w, ok := castWidth(ptr.Elem); ok {
				fr.extentCheck(in, st, ptr, w/8, "nil")
			}
		}
		p.storeElemCast(st, ptr, v)
	}
}

// coerceNil turns the untyped nil constant into the zero value of t.
func coerceNil(v Value, t types.Type) Value {
	if t == nil {
		return v
	}
	if pv, ok := v.(PtrV); ok && pv.Elem == nil && isNilPtrConst(pv) {
		switch u := t.Underlying().(type) {
		case *types.Pointer:
			pv.Elem = u.Elem()
			return pv
		default:
			return zeroValue(t)
		}
	}
	return v
}

func (fr *Frame) unop(x *ssa.UnOp, st *State) Value {
	switch x.Op {
	case token.MUL:
		return fr.load(x, st, fr.val(x.X), x.Type())
	case token.NOT:
		return Scalar{Not(fr.val(x.X).(Scalar).T)}
	case token.SUB:
		v := fr.val(x.X).(Scalar).T
		if v.Sort == SFloat {
			return Scalar{B.mk("fp.neg", SFloat, v)}
		}
		return Scalar{BVNeg(v)}
	case token.XOR:
		return Scalar{BVNot(fr.val(x.X).(Scalar).T)}
	case token.ARROW:
		panic("unsupported channel receive")
	}
	panic("unsupported unop " + x.Op.String())
}

func (fr *Frame) fieldAddr(x *ssa.FieldAddr, st *State) Value {
	ptr, ok := fr.val(x.X).(PtrV)
	if !ok {
		panic("unsupported FieldAddr base")
	}
	st0 := x.X.Type().Underlying().(*types.Pointer).Elem()
	ft := st0.Underlying().(*types.Struct).Field(x.Field).Type()
	switch ptr.Kind {
	case KObj:
		fr.nilCheck(x, st, ptr)
		rt := ptr.Elem
		if rt == nil {
			rt = st0
		}
		return PtrV{Kind: KField, Elem: ft, Ref: ptr.Ref, RootT: rt, Path: []int{x.Field}, Null: False()}
	case KField, KGlobal:
		np := append(append([]int{}, ptr.Path...), x.Field)
		r := ptr
		r.Path = np
		r.Elem = ft
		return r
	case KLocal:
		np := append(append([]int{}, ptr.Path...), x.Field)
		r := ptr
		r.Path = np
		r.Elem = ft
		return r
	case KElem:
		// pointer to a struct element of a slice: address its field as a sub-path of the element
		r := ptr
		r.Path = append(append([]int{}, ptr.Path...), x.Field)
		r.Elem = ft
		return r
	}
	panic("unsupported FieldAddr")
}

func (fr *Frame) boundsCheck(in ssa.Instruction, st *State, idx, n *Term, what string) {
	goal := And(BVSle(BVInt(0, 64), idx), BVSlt(idx, n))
	fr.p.oblige(fr.siteName(in, "bounds"), "bounds", in.Pos(), st.Guard, goal, what)
}

func to64(t *Term, signed bool) *Term {
	if t.Width() == 64 {
		return t
	}
	if signed {
		return SignExt(t, 64)
	}
	return ZeroExt(t, 64)
}

func (fr *Frame) idx64(v ssa.Value) *Term {
	t := fr.val(v).(Scalar).T
	_, signed, _ := intInfo(v.Type())
	return to64(t, signed)
}

// idxCheck: Go index values of unsigned type > maxint are out of range as well; for a 64-bit
// unsigned index the signed comparison 0 <= idx catches it (it becomes negative).
func (fr *Frame) indexAddr(x *ssa.IndexAddr, st *State) Value {
	idx := fr.idx64(x.Index)
	switch b := fr.val(x.X).(type) {
	case SliceV:
		fr.boundsCheck(x, st, idx, b.Len, "slice index in range")
		return PtrV{Kind: KElem, Elem: b.Elem, ArrElem: b.Elem, Arr: b.Ref, Idx: BVAdd(b.Off, idx), Null: False(), End: BVAdd(b.Off, b.Len)}
	case PtrV:
		// pointer to array
		at := x.X.Type().Underlying().(*types.Pointer).Elem().Underlying().(*types.Array)
		fr.boundsCheck(x, st, idx, BVInt(at.Len(), 64), "array index in range")
		if b.Kind == KElem || b.Kind == KObj || b.AIdx != nil {
			panic("unsupported IndexAddr on this array pointer")
		}
		r := b
		r.Elem = at.Elem()
		r.AIdx = idx
		return r
	}
	panic("unsupported IndexAddr base")
}

func (fr *Frame) index(x *ssa.Index, st *State) Value {
	idx := fr.idx64(x.Index)
	switch b := fr.val(x.X).(type) {
	case ArrayV:
		fr.boundsCheck(x, st, idx, BVInt(b.N, 64), "array index in range")
		return leafToValue(b.Elem, Select(b.A, idx))
	case Scalar:
		if b.T.Sort == SStr {
			fr.boundsCheck(x, st, idx, strLen(b.T), "string index in range")
			return Scalar{strAt(b.T, idx)}
		}
	}
	panic("unsupported Index base")
}

func leafToValue(t types.Type, term *Term) Value {
	return build(t, func(l leafSpec) *Term { return term })
}

func (fr *Frame) lookup(x *ssa.Lookup, st *State) Value {
	if isString(x.X.Type()) {
		s := fr.val(x.X).(Scalar).T
		idx := fr.idx64(x.Index)
		fr.boundsCheck(x, st, idx, strLen(s), "string index in range")
		return Scalar{strAt(s, idx)}
	}
	return fr.mapLookup(x, st)
}

func (fr *Frame) slice(x *ssa.Slice, st *State) Value {
	p := fr.p
	name := fr.siteName(x, "slice")
	z := BVInt(0, 64)
	get := func(v ssa.Value, def *Term) *Term {
		if v == nil {
			return def
		}
		return fr.idx64(v)
	}
	switch b := fr.val(x.X).(type) {
	case SliceV:
		lo := get(x.Low, z)
		hi := get(x.High, b.Len)
		mx := get(x.Max, b.Cap)
		goal := And(BVSle(z, lo), BVSle(lo, hi), BVSle(hi, mx), BVSle(mx, b.Cap))
		p.oblige(name, "slice", x.Pos(), st.Guard, goal, "slice bounds in range")
		return SliceV{Ref: b.Ref, Off: BVAdd(b.Off, lo), Len: BVSub(hi, lo), Cap: BVSub(mx, lo), Elem: b.Elem}
	case Scalar:
		if b.T.Sort == SStr {
			n := strLen(b.T)
			lo := get(x.Low, z)
			hi := get(x.High, n)
			goal := And(BVSle(z, lo), BVSle(lo, hi), BVSle(hi, n))
			p.oblige(name, "slice", x.Pos(), st.Guard, goal, "string slice bounds in range")
			return Scalar{p.strSub(st.Guard, b.T, lo, hi)}
		}
	case PtrV:
		// slicing a pointer to array: copy semantics (aliasing with the array is lost; noted)
		at := x.X.Type().Underlying().(*types.Pointer).Elem().Underlying().(*types.Array)
		av, ok := fr.load(x, st, b, at).(ArrayV)
		if !ok {
			panic("unsupported slice of array pointer")
		}
		n := BVInt(at.Len(), 64)
		lo := get(x.Low, z)
		hi := get(x.High, n)
		goal := And(BVSle(z, lo), BVSle(lo, hi), BVSle(hi, n))
		p.oblige(name, "slice", x.Pos(), st.Guard, goal, "array slice bounds in range")
		if untrackedElem(at.Elem()) {
			// varargs of interface values (logging, formatting): contents are not modelled, so the slice does
			// not need a place in the heap model (keeps the allocation counter identical across branches)
			ref := B.Fresh("vararg", SRef)
			p.assume(True(), Neq(ref, BVInt(0, 64)))
			return SliceV{Ref: ref, Off: lo, Len: BVSub(hi, lo), Cap: BVSub(n, lo), Elem: at.Elem()}
		}
		ref := p.allocRef(st)
		if av.Vals != nil {
			for i, ev := range av.Vals {
				p.storeElem(st, at.Elem(), ref, BVInt(int64(i), 64), ev)
			}
		} else if at.Len() > 0 && !untrackedElem(at.Elem()) {
			ls := leavesOf(at.Elem())
			if len(ls) == 1 {
				key := elemsKey(at.Elem(), ls[0].Path)
				c := p.heapCell(st, key, SArr(SRef, SArr(SBV(64), ls[0].Sort)))
				st.Heap[key] = Store(c, ref, av.A)
			}
		}
		p.note("slice of array: aliasing with the array not tracked (" + fr.fn.Name() + ")")
		return SliceV{Ref: ref, Off: lo, Len: BVSub(hi, lo), Cap: BVSub(n, lo), Elem: at.Elem()}
	}
	panic("unsupported Slice base")
}

func (fr *Frame) makeSlice(x *ssa.MakeSlice, st *State) Value {
	p := fr.p
	n := fr.idx64(x.Len)
	c := fr.idx64(x.Cap)
	et := x.Type().Underlying().(*types.Slice).Elem()
	lim := BVConst(new(big.Int).Lsh(big1, 47), 64)
	goal := And(BVSle(BVInt(0, 64), n), BVSle(n, c), BVSle(c, lim))
	p.oblige(fr.siteName(x, "makeslice"), "makeslice", x.Pos(), st.Guard, goal, "make: 0 <= len <= cap and size is allocatable")
	ref := p.allocRef(st)
	for _, l := range leavesOf(et) {
		key := elemsKey(et, l.Path)
		srt := SArr(SRef, SArr(SBV(64), l.Sort))
		cell := p.heapCell(st, key, srt)
		st.Heap[key] = Store(cell, ref, ConstArray(SArr(SBV(64), l.Sort), zeroLeaf(l)))
	}
	return SliceV{Ref: ref, Off: BVInt(0, 64), Len: n, Cap: c, Elem: et}
}

// ---- arithmetic

func (fr *Frame) binop(x *ssa.BinOp, st *State) Value {
	a, b := fr.val(x.X), fr.val(x.Y)
	return fr.p.binopVals(fr, x, st, x.Op, a, b, x.X.Type(), x.Y.Type())
}

func (p *Proof) binopVals(fr *Frame, in ssa.Instruction, st *State, op token.Token, a, b Value, ta, tb types.Type) Value {
	switch op {
	case token.EQL:
		return Scalar{p.valEq(st, a, b, ta)}
	case token.NEQ:
		return Scalar{Not(p.valEq(st, a, b, ta))}
	}
	as, ok1 := a.(Scalar)
	bs, ok2 := b.(Scalar)
	if !ok1 || !ok2 {
		panic(fmt.Sprintf("unsupported binop %s on %T,%T", op, a, b))
	}
	x, y := as.T, bs.T
	switch {
	case x.Sort == SBool:
		switch op {
		case token.LAND, token.AND:
			return Scalar{And(x, y)}
		case token.LOR, token.OR:
			return Scalar{Or(x, y)}
		case token.XOR:
			return Scalar{Not(Eq(x, y))}
		}
	case x.Sort == SStr:
		switch op {
		case token.ADD:
			return Scalar{p.strCat(st.Guard, x, y)}
		case token.LSS:
			p.strOrderFacts(x, y)
			return Scalar{strLess(x, y)}
		case token.GTR:
			p.strOrderFacts(x, y)
			return Scalar{strLess(y, x)}
		case token.LEQ:
			p.strOrderFacts(x, y)
			return Scalar{Not(strLess(y, x))}
		case token.GEQ:
			p.strOrderFacts(x, y)
			return Scalar{Not(strLess(x, y))}
		}
	case x.Sort == SFloat:
		switch op {
		case token.LSS:
			return Scalar{B.mk("fp.lt", SBool, x, y)}
		case token.LEQ:
			return Scalar{B.mk("fp.leq", SBool, x, y)}
		case token.GTR:
			return Scalar{B.mk("fp.gt", SBool, x, y)}
		case token.GEQ:
			return Scalar{B.mk("fp.geq", SBool, x, y)}
		case token.ADD:
			return Scalar{B.mk("fp.add", SFloat, rne(), x, y)}
		case token.SUB:
			return Scalar{B.mk("fp.sub", SFloat, rne(), x, y)}
		case token.MUL:
			return Scalar{B.mk("fp.mul", SFloat, rne(), x, y)}
		case token.QUO:
			return Scalar{B.mk("fp.div", SFloat, rne(), x, y)}
		}
	default:
		w, signed, ok := intInfo(ta)
		if !ok {
			panic("unsupported binop operand type " + typeKey(ta))
		}
		_ = w
		switch op {
		case token.ADD:
			return Scalar{BVAdd(x, y)}
		case token.SUB:
			return Scalar{BVSub(x, y)}
		case token.MUL:
			return Scalar{BVMul(x, y)}
		case token.QUO, token.REM:
			if fr != nil && in != nil {
				p.oblige(fr.siteName(in, "div"), "div", in.Pos(), st.Guard, Neq(y, BVInt(0, y.Width())), "division by zero")
			}
			if op == token.QUO {
				if signed {
					return Scalar{BVSDiv(x, y)}
				}
				return Scalar{BVUDiv(x, y)}
			}
			if signed {
				return Scalar{BVSRem(x, y)}
			}
			return Scalar{BVURem(x, y)}
		case token.AND:
			return Scalar{BVAnd(x, y)}
		case token.OR:
			return Scalar{BVOr(x, y)}
		case token.XOR:
			return Scalar{BVXor(x, y)}
		case token.AND_NOT:
			return Scalar{BVAnd(x, BVNot(y))}
		case token.SHL, token.SHR:
			// shift count: y may have a different width / signedness
			_, ysigned, _ := intInfo(tb)
			if ysigned && fr != nil && in != nil {
				p.oblige(fr.siteName(in, "shift"), "shift", in.Pos(), st.Guard, BVSle(BVInt(0, y.Width()), y), "negative shift count")
			}
			yy := y
			if y.Width() < x.Width() {
				yy = ZeroExt(y, x.Width())
			} else if y.Width() > x.Width() {
				// saturate: if y >= width then result is 0 / sign
				wlim := BVInt(int64(x.Width()), y.Width())
				yy = Ite(BVUge(y, wlim), BVInt(int64(x.Width()), x.Width()), Extract(y, x.Width()-1, 0))
			}
			if op == token.SHL {
				return Scalar{BVShl(x, yy)}
			}
			if signed {
				return Scalar{BVAshr(x, yy)}
			}
			return Scalar{BVLshr(x, yy)}
		case token.LSS:
			if signed {
				return Scalar{BVSlt(x, y)}
			}
			return Scalar{BVUlt(x, y)}
		case token.LEQ:
			if signed {
				return Scalar{BVSle(x, y)}
			}
			return Scalar{BVUle(x, y)}
		case token.GTR:
			if signed {
				return Scalar{BVSgt(x, y)}
			}
			return Scalar{BVUgt(x, y)}
		case token.GEQ:
			if signed {
				return Scalar{BVSge(x, y)}
			}
			return Scalar{BVUge(x, y)}
		}
	}
	panic("unsupported binop " + op.String() + " on " + typeKey(ta))
}

func rne() *Term { return B.mk("RNE", "RoundingMode") }

func floatConst(f float64) *Term {
	// exact via bits
	bits := mathFloat64bits(f)
	return B.mk(fmt.Sprintf("((_ to_fp 11 53) #x%016x)", bits), SFloat)
}

func strLess(a, b *Term) *Term {
	B.DeclareFun("gs.lt", []string{SStr, SStr}, SBool)
	return B.App("gs.lt", SBool, a, b)
}

func dynType(r *Term) *Term {
	B.DeclareFun("dyntype", []string{SRef}, SBV(32))
	return B.App("dyntype", SBV(32), r)
}

func (p *Proof) valEq(st *State, a, b Value, t types.Type) *Term {
	switch x := a.(type) {
	case Scalar:
		switch y := b.(type) {
		case Scalar:
			if x.T.Sort == SFloat {
				return B.mk("fp.eq", SBool, x.T, y.T)
			}
			return Eq(x.T, y.T)
		case PtrV:
			return Eq(x.T, p.opaquePtr(st, y))
		}
	case PtrV:
		y, ok := b.(PtrV)
		if !ok {
			if ys, ok2 := b.(Scalar); ok2 {
				return Eq(p.opaquePtr(st, x), ys.T)
			}
			break
		}
		if isNilPtrConst(y) {
			return x.Null
		}
		if isNilPtrConst(x) {
			return y.Null
		}
		if x.Kind == KObj && y.Kind == KObj {
			return Eq(x.Ref, y.Ref)
		}
		if x.Kind == KLocal && y.Kind == KLocal {
			if x.Cell == y.Cell && pathEq(x.Path, y.Path) {
				return Eq(x.Null, y.Null)
			}
			return And(x.Null, y.Null)
		}
		if x.Kind == KField && y.Kind == KField && types.Identical(x.RootT, y.RootT) && pathEq(x.Path, y.Path) {
			return Or(And(x.Null, y.Null), And(Not(x.Null), Not(y.Null), Eq(x.Ref, y.Ref)))
		}
		if x.Kind == KElem && y.Kind == KElem {
			return Or(And(x.Null, y.Null), And(Not(x.Null), Not(y.Null), Eq(x.Arr, y.Arr), Eq(x.Idx, y.Idx)))
		}
		if x.Kind == KField && y.Kind == KObj || x.Kind == KObj && y.Kind == KField {
			// field address vs object pointer (e.g. c != &f.end): compare through an injective address function
			return Eq(p.addrOf(st, x), p.addrOf(st, y))
		}
		return Eq(p.opaquePtr(st, x), p.opaquePtr(st, y))
	case IfaceV:
		switch y := b.(type) {
		case IfaceV:
			if y.Ref.IsConst() || x.Ref.IsConst() {
				return Eq(x.Ref, y.Ref)
			}
			B.DeclareFun("iface.eq", []string{SRef, SRef}, SBool)
			e := B.App("iface.eq", SBool, x.Ref, y.Ref)
			p.assume(True(), Implies(Eq(x.Ref, y.Ref), e))
			return e
		case PtrV:
			if isNilPtrConst(y) {
				return Eq(x.Ref, BVInt(0, 64))
			}
		}
	case StructV:
		y := b.(StructV)
		u := x.Typ.Underlying().(*types.Struct)
		var cs []*Term
		for i := range x.F {
			cs = append(cs, p.valEq(st, x.F[i], y.F[i], u.Field(i).Type()))
		}
		return And(cs...)
	case SliceV:
		if y, ok := b.(PtrV); ok && isNilPtrConst(y) {
			return Eq(x.Ref, BVInt(0, 64))
		}
		if y, ok := b.(SliceV); ok && y.Ref.IsConst() {
			return Eq(x.Ref, BVInt(0, 64))
		}
	case MapV:
		if y, ok := b.(PtrV); ok && isNilPtrConst(y) {
			return Eq(x.Ref, BVInt(0, 64))
		}
		if y, ok := b.(MapV); ok {
			return Eq(x.Ref, y.Ref)
		}
	case FuncV:
		if y, ok := b.(PtrV); ok && isNilPtrConst(y) {
			if x.Fn != nil {
				return False()
			}
			if x.Ref != nil {
				return Eq(x.Ref, BVInt(0, 64))
			}
		}
		if y, ok := b.(FuncV); ok && y.Fn == nil && y.Ref != nil && y.Ref.IsConst() {
			if x.Fn != nil {
				return False()
			}
			if x.Ref != nil {
				return Eq(x.Ref, y.Ref)
			}
		}
	case ArrayV:
		if y, ok := b.(ArrayV); ok {
			if x.N == 0 {
				return True()
			}
			return Eq(x.A, y.A)
		}
	}
	panic(fmt.Sprintf("unsupported equality %T vs %T", a, b))
}

// addrOf gives an injective abstract address to object and field pointers.
func (p *Proof) addrOf(st *State, x PtrV) *Term {
	B.DeclareFun("addr.field", []string{SRef, SBV(32)}, SRef)
	switch x.Kind {
	case KObj:
		return B.App("addr.field", SRef, x.Ref, BVInt(0, 32))
	case KField:
		ps, _ := pathString(x.RootT, x.Path)
		id := p.eng.pathID(typeKey(x.RootT) + ps)
		// the first field at offset 0 of a struct shares the address of the struct in Go; we only need
		// disequality of distinct objects, so distinct (ref, path) pairs get distinct addresses.
		return B.App("addr.field", SRef, x.Ref, BVInt(int64(id), 32))
	}
	return p.opaquePtr(st, x)
}

func mathFloat64bits(f float64) uint64 { return float64bits(f) }

// funcCode: which function's code a function value runs (closures of one function literal share
// it). Kept when two function values are merged at a join, so that a contract can say which
// function a returned function value is (funcname).
func funcCodeOf(ref *Term) *Term {
	B.DeclareFun("fn.code", []string{SRef}, SBV(32))
	return B.App("fn.code", SBV(32), ref)
}

func (p *Proof) funcCodeFact(ref *Term, fn *ssa.Function) {
	if fn == nil {
		return
	}
	p.assume(True(), Eq(funcCodeOf(ref), BVInt(int64(p.eng.pathID("fn:"+relName(fn))), 32)))
}

// strOrderFacts: the order on strings is a strict total order (what it orders by - bytes -
// is not modelled): of two strings exactly one of x < y, x == y, y < x holds.
func (p *Proof) strOrderFacts(x, y *Term) {
	lt, gt, eq := strLess(x, y), strLess(y, x), Eq(x, y)
	p.assume(True(), And(Not(And(lt, gt)), Not(And(lt, eq)), Not(And(gt, eq)), Or(lt, gt, eq)))
}
