package main

// govc check: run a property's obligations against /repo's working tree, report, write evidence.

import (
	"regexp"

	"golang.org/x/tools/go/ssa"
	"golang.org/x/tools/go/ssa/ssautil"
	"go/constant"
	"go/types"
	"encoding/json"
	"flag"
	"fmt"
	"os"
	"path/filepath"
	"sort"
	"strconv"
	"strings"
	"time"
)

type PropSpec struct {
	ID        string   `json:"id"`
	Dir       string   `json:"dir"`      // module directory to load from
	Patterns  []string `json:"patterns"` // package patterns
	Functions []string `json:"functions"`
	// "pkgpath:relname"; every instantiation is proved
	Lemmas       []string          `json:"lemmas"`     // "pkgpath:name"
	Pins         []string          `json:"pins"`       // "pkgpath:name"
	SafetyOnly   []string          `json:"safety_only"` // functions proved for safety obligations only (no contract needed)
	NotDecided   []string          `json:"not_decided"`
	Assumptions  []string          `json:"assumptions"`
	Bounded      []BoundedStandin  `json:"bounded_standins"`
	StrContent   bool              `json:"str_content"`
	TimeoutQuick int               `json:"timeout_quick"`
	Replay       map[string]string `json:"replay"` // obligation-name prefix -> replay kind
	AutoInline   []string          `json:"auto_inline"`
	Private      []string          `json:"private_bytes"` // functions whose byte slices are private (exact atomic loads)
}

type BoundedStandin struct {
	Name  string `json:"name"`
	Bound string `json:"bound"`
	Cmd   string `json:"cmd"`
}

type Finding struct {
	Kind       string // finding | fixed
	Property   string
	Obligation string
	Rest       string
}

func loadFindings(path string) []Finding {
	data, err := os.ReadFile(path)
	if err != nil {
		return nil
	}
	var out []Finding
	for _, line := range strings.Split(string(data), "\n") {
		line = strings.TrimSpace(line)
		if line == "" || strings.HasPrefix(line, "#") {
			continue
		}
		var f Finding
		switch {
		case strings.HasPrefix(line, "finding:"):
			f.Kind = "finding"
			line = strings.TrimSpace(line[8:])
		case strings.HasPrefix(line, "fixed:"):
			f.Kind = "fixed"
			line = strings.TrimSpace(line[6:])
		default:
			continue
		}
		for _, fld := range strings.Fields(line) {
			if strings.HasPrefix(fld, "property=") {
				f.Property = fld[9:]
			} else if strings.HasPrefix(fld, "obligation=") {
				f.Obligation = fld[11:]
			}
		}
		f.Rest = strings.TrimSpace(strings.TrimPrefix(line, "property="+f.Property))
		out = append(out, f)
	}
	return out
}

func readNames(path string) (map[string]bool, []string) {
	m := map[string]bool{}
	var order []string
	data, err := os.ReadFile(path)
	if err != nil {
		return m, nil
	}
	for _, l := range strings.Split(string(data), "\n") {
		l = strings.TrimSpace(l)
		if l == "" || strings.HasPrefix(l, "#") {
			continue
		}
		if !m[l] {
			m[l] = true
			order = append(order, l)
		}
	}
	return m, order
}

func verifDir() string {
	if d := os.Getenv("VERIF_DIR"); d != "" {
		return d
	}
	return "/verif"
}

type checkRun struct {
	spec     *PropSpec
	tier     string
	seed     int
	eng      *Engine
	results  []*ProofResult
	loadSecs float64
	genSecs  float64
}

func loadSpec(id string) (*PropSpec, error) {
	data, err := os.ReadFile(filepath.Join(verifDir(), "props", id+".json"))
	if err != nil {
		return nil, err
	}
	var s PropSpec
	if err := json.Unmarshal(data, &s); err != nil {
		return nil, err
	}
	if s.Dir == "" {
		s.Dir = "/repo"
	}
	if rd := os.Getenv("VERIF_REPO"); rd != "" {
		s.Dir = strings.Replace(s.Dir, "/repo", rd, 1)
	}
	return &s, nil
}

func splitFn(s string) (pkg, name string) {
	i := strings.Index(s, ":")
	return s[:i], s[i+1:]
}

func (cr *checkRun) generate() (mismatch []string, err error) {
	t0 := time.Now()
	eng, err := LoadEngine(cr.spec.Dir, cr.spec.Patterns, filepath.Join(verifDir(), "contracts"))
	cr.eng = eng
	if err != nil {
		return nil, err
	}
	eng.strContent = cr.spec.StrContent
	for _, a := range cr.spec.AutoInline {
		eng.autoInline[a] = true
	}
	cr.loadSecs = time.Since(t0).Seconds()
	t1 := time.Now()
	private := map[string]bool{}
	for _, f := range cr.spec.Private {
		private[f] = true
	}
	for _, f := range cr.spec.Functions {
		pkg, name := splitFn(f)
		fns := eng.instances(pkg, name)
		if len(fns) == 0 {
			mismatch = append(mismatch, "function "+f+" not found")
			continue
		}
		if eng.cons[pkg+"."+name] == nil {
			mismatch = append(mismatch, "no contract for "+f)
			continue
		}
		for _, fn := range fns {
			eng.privateNext = private[f]
			cr.results = append(cr.results, eng.ProveFunctionViews(fn)...)
		}
	}
	for _, f := range cr.spec.SafetyOnly {
		pkg, name := splitFn(f)
		fns := eng.instances(pkg, name)
		if len(fns) == 0 {
			mismatch = append(mismatch, "function "+f+" not found")
			continue
		}
		for _, fn := range fns {
			eng.privateNext = private[f]
			cr.results = append(cr.results, eng.ProveFunctionViews(fn)...)
		}
	}
	for _, l := range cr.spec.Lemmas {
		pkg, name := splitFn(l)
		found := false
		for _, ld := range eng.lemmas {
			if ld.Pkg == pkg && ld.Name == name {
				cr.results = append(cr.results, eng.ProveLemma(ld))
				found = true
			}
		}
		if !found {
			mismatch = append(mismatch, "lemma "+l+" not found")
		}
	}
	for _, pn := range cr.spec.Pins {
		pkg, name := splitFn(pn)
		found := false
		for _, pd := range eng.pins {
			if pd.Pkg == pkg && pd.Name == name {
				cr.results = append(cr.results, eng.ProvePin(pd))
				found = true
			}
		}
		if !found {
			mismatch = append(mismatch, "const pin "+pn+" not found")
		}
	}
	cr.genSecs = time.Since(t1).Seconds()
	return mismatch, nil
}

type evidence struct {
	PropertyID  string                 `json:"property_id"`
	Tier        string                 `json:"tier"`
	Seed        int                    `json:"seed"`
	Level       string                 `json:"level"`
	Coverage    map[string]interface{} `json:"coverage"`
	Assumptions []string               `json:"assumptions"`
	WallS       float64                `json:"wall_s"`
	Violations  int                    `json:"violations"`
}

func cmdCheck(args []string) {
	fs := flag.NewFlagSet("check", flag.ExitOnError)
	prop := fs.String("prop", "", "property id")
	tier := fs.String("tier", "quick", "quick|thorough")
	updateNames := fs.Bool("update-names", false, "rewrite obligations/<id>.names from this run (development only)")
	verbose := fs.Bool("v", false, "verbose")
	fs.Parse(args)
	if t := os.Getenv("VERIF_TIER"); t != "" && *tier == "" {
		*tier = t
	}
	seed := 0
	if s := os.Getenv("VERIF_SEED"); s != "" {
		seed, _ = strconv.Atoi(s)
	}
	t0 := time.Now()
	spec, err := loadSpec(*prop)
	if err != nil {
		fmt.Println("cannot load property spec:", err)
		os.Exit(2)
	}
	cr := &checkRun{spec: spec, tier: *tier, seed: seed}
	mismatch, err := cr.generate()
	if err != nil {
		fmt.Println("CHECK-BROKEN: cannot load packages:", err)
		os.Exit(2)
	}
	timeout := 20
	if spec.TimeoutQuick > 0 {
		timeout = spec.TimeoutQuick
	}
	all := false
	if *tier == "thorough" {
		timeout *= 3
		all = true
	}
	solverSeed = seed
	tS := time.Now()
	discharge(cr.results, timeout, all, *verbose)
	solveWall := time.Since(tS).Seconds()

	namesPath := filepath.Join(verifDir(), "obligations", spec.ID+".names")
	claimed, claimedOrder := readNames(namesPath)
	findings := loadFindings(filepath.Join(verifDir(), "KNOWN_FINDINGS.txt"))

	type row struct {
		o  *Obligation
		r  *ProofResult
		ok bool
	}
	byName := map[string]*row{}
	var rows []*row
	exit := 0
	var funcs []map[string]interface{}
	var errs []string
	unmodelled := map[string]bool{}
	inlined := map[string]bool{}
	assumed := map[string]bool{}
	notes := map[string]bool{}
	var solverMs int64
	backends := map[string]int{}
	vacuity := 0
	coverInconclusive := 0
	var unreachable []string
	for _, r := range cr.results {
		for _, e := range r.Errors {
			errs = append(errs, r.Func+": "+e)
		}
		for _, u := range r.Unmodelled {
			unmodelled[u] = true
		}
		for _, u := range r.Inlined {
			inlined[u] = true
		}
		for _, u := range r.Assumed {
			assumed[u] = true
		}
		for _, u := range r.Notes {
			notes[u] = true
		}
		nob := 0
		for _, o := range r.Obligations {
			ok := o.Status == "unsat"
			if o.IsCover {
				// a cover fails only when the solver proves the assumptions contradictory; "unknown" (typical
				// for satisfiability with quantified assumptions) is inconclusive and counted separately
				ok = o.Status != "unsat"
				vacuity++
				if o.Status != "sat" && o.Status != "unsat" {
					coverInconclusive++
				}
				if o.Informational {
					if o.Status == "unsat" {
						unreachable = append(unreachable, o.Name)
					}
					ok = true
				}
			}
			rw := &row{o, r, ok}
			if prev, dup := byName[o.Name]; dup {
				// duplicate names (same function proved twice): keep the failing one
				if prev.ok && !ok {
					byName[o.Name] = rw
				}
			} else {
				byName[o.Name] = rw
			}
			rows = append(rows, rw)
			solverMs += o.Millis
			backends[o.Solver]++
			nob++
		}
		rel := r.File
		if strings.HasPrefix(rel, "/repo/") {
			rel = rel[6:]
		}
		funcs = append(funcs, map[string]interface{}{"name": r.Func, "where": fmt.Sprintf("%s:%d", rel, r.Line), "obligations": nob, "trusted": r.Trusted})
	}
	if *updateNames {
		cr.eng.recordShapes()
		var names []string
		bad := map[string]bool{}
		for _, rw := range rows {
			if !rw.ok && !rw.o.IsCover {
				bad[groupName(rw.o.Name)] = true
			}
		}
		for _, rw := range rows {
			if rw.ok && !rw.o.IsCover && !bad[groupName(rw.o.Name)] {
				names = append(names, groupName(rw.o.Name))
			}
		}
		sort.Strings(names)
		names = uniq(names)
		os.MkdirAll(filepath.Dir(namesPath), 0755)
		os.WriteFile(namesPath, []byte("# obligations claimed for "+spec.ID+" (all discharge on the unchanged tree)\n"+strings.Join(names, "\n")+"\n"), 0644)
		fmt.Printf("wrote %d names to %s\n", len(names), namesPath)
		claimed, claimedOrder = readNames(namesPath)
	}

	var lines []string
	violations := 0
	known := 0
	undecided := 0
	broken := false
	for _, m := range mismatch {
		lines = append(lines, "CONTRACT-MISMATCH property="+spec.ID+" "+m)
		broken = true
	}
	for _, e := range errs {
		lines = append(lines, "ENGINE-REFUSED property="+spec.ID+" "+e)
	}
	discharged := 0
	nClaimed := 0
	var samples []map[string]interface{}
	replayDir := filepath.Join(verifDir(), "replays", spec.ID)
	// index generated obligations by claimed (group) name
	byGroup := map[string][]*row{}
	funcsGenerated := map[string]bool{}
	for _, rw := range rows {
		if rw.o.IsCover {
			continue
		}
		g := groupName(rw.o.Name)
		byGroup[g] = append(byGroup[g], rw)
		funcsGenerated[rw.o.Fn] = true
	}
	lostBy := map[string][]string{}
	var lostOrder []string
	for _, name := range claimedOrder {
		members := byGroup[name]
		isGroup := strings.HasSuffix(name, "#*") || strings.Contains(name, "/call#*.")
		if len(members) == 0 {
			if isGroup {
				// a group may become empty (e.g. the last index expression was removed) as long as its function is still there
				fn := name[:strings.LastIndex(name, "/")]
				if i := strings.Index(fn, ">"); i >= 0 {
					fn = fn[:strings.Index(fn, "@")]
				}
				if funcsGenerated[fn] {
					nClaimed++
					discharged++
					continue
				}
			}
			nClaimed++
			lines = append(lines, "CONTRACT-MISMATCH property="+spec.ID+" obligation="+name+" (claimed obligation was not generated: function, loop or call site changed)")
			// An obligation that discharged on the unchanged tree and can no longer be
			// established from the current source has failed (a deductive verifier rejects a
			// function whose invariant no longer fits it): reported below as one violation per
			// function, without a failing input.
			fn := name
			if i := strings.LastIndex(fn, "/"); i >= 0 {
				fn = fn[:i]
			}
			if i := strings.Index(fn, ">"); i >= 0 {
				// obligations of a closure inlined at a call site belong to the enclosing function
				fn = fn[:strings.Index(fn, "@")]
			}
			if _, seen := lostBy[fn]; !seen {
				lostOrder = append(lostOrder, fn)
			}
			lostBy[fn] = append(lostBy[fn], name)
			continue
		}
		for _, rw := range members {
			nClaimed++
			if rw.ok {
				discharged++
				if len(samples) < 3 && (rw.o.Kind == "ensures" || rw.o.Kind == "inv-pres" || rw.o.Kind == "lemma" || rw.o.Kind == "pre" || rw.o.Kind == "assert") {
					samples = append(samples, map[string]interface{}{"obligation": rw.o.Name, "kind": rw.o.Kind, "where": posStr(rw.o), "statement": rw.o.Desc,
						"smt_goal": truncStr(goalString(rw.o), 600), "solver": rw.o.Solver, "ms": rw.o.Millis})
				}
				continue
			}
			if rw.o.Status == "disagree" {
				lines = append(lines, "SOLVER-DISAGREEMENT property="+spec.ID+" obligation="+rw.o.Name)
				broken = true
				continue
			}
			if f := matchFinding(findings, spec.ID, rw.o.Name); f != nil {
				lines = append(lines, "KNOWN-FINDING: property="+spec.ID+" "+f.Rest)
				known++
				nClaimed-- // a listed finding is reported, not counted among the obligations proved
				continue
			}
			violations++
			path, reproduced := cr.replay(rw.r, rw.o, replayDir)
			lines = append(lines, "FAILED-OBLIGATION property="+spec.ID+" obligation="+rw.o.Name+" ("+rw.o.Status+") "+truncStr(rw.o.Desc, 200))
			l := "VIOLATION property=" + spec.ID + " replay=" + path
			if !reproduced {
				l += " no-failing-input-found"
			}
			lines = append(lines, l)
		}
	}
	for _, fn := range lostOrder {
		var why []string
		short := fn
		if i := strings.LastIndex(short, "/"); i >= 0 {
			short = short[i+1:]
		}
		for _, e := range errs {
			if strings.Contains(e, short) {
				why = append(why, e)
			}
		}
		for _, m := range mismatch {
			if strings.Contains(m, short) {
				why = append(why, m)
			}
		}
		if len(why) == 0 {
			why = []string{"the loop, call site or statement the clause is attached to is no longer in the function"}
		}
		os.MkdirAll(replayDir, 0755)
		path := filepath.Join(replayDir, sanitize(strings.ReplaceAll(fn, "/", "_"))+".lost.json")
		rf := &ReplayFile{Property: spec.ID, Obligation: strings.Join(lostBy[fn], ", "), Kind: "lost", Function: fn,
			Statement: "obligations claimed for this property (they discharge on the unchanged tree) that can no longer be generated from the current source",
			Status:    "not generated: " + strings.Join(why, " | "), ReplayKind: "none",
			Note:      "the contract no longer fits the function, so what it proved about the unchanged code is not re-established for this code; no failing input found"}
		data, _ := json.MarshalIndent(rf, "", " ")
		os.WriteFile(path, data, 0644)
		violations++
		lines = append(lines, fmt.Sprintf("FAILED-OBLIGATION property=%s %d claimed obligation(s) of %s can no longer be established: %s", spec.ID, len(lostBy[fn]), fn, truncStr(strings.Join(why, " | "), 300)))
		lines = append(lines, fmt.Sprintf("VIOLATION property=%s replay=%s no-failing-input-found", spec.ID, path))
	}
	// new obligations that fail
	for _, rw := range rows {
		if claimed[groupName(rw.o.Name)] || rw.ok || rw.o.IsCover {
			continue
		}
		if f := matchFinding(findings, spec.ID, rw.o.Name); f != nil {
			lines = append(lines, "KNOWN-FINDING: property="+spec.ID+" "+f.Rest)
			known++
			continue
		}
		// an obligation that is not claimed for this property and is a listed finding of another
		// property (the function is shared): nothing new to say here
		otherProp := false
		for i := range findings {
			if findings[i].Kind == "finding" && findings[i].Obligation == rw.o.Name {
				otherProp = true
			}
		}
		if otherProp {
			continue
		}
		path, reproduced := cr.replay(rw.r, rw.o, replayDir)
		if reproduced {
			violations++
			lines = append(lines, "FAILED-OBLIGATION property="+spec.ID+" obligation="+rw.o.Name+" (new obligation, sat, reproduced) "+truncStr(rw.o.Desc, 200))
			lines = append(lines, "VIOLATION property="+spec.ID+" replay="+path)
		} else {
			undecided++
			lines = append(lines, "UNDECIDED obligation="+rw.o.Name+" ("+rw.o.Status+") "+rw.o.Desc)
		}
	}
	// vacuity guards
	for _, rw := range rows {
		if rw.o.IsCover && !rw.ok {
			lines = append(lines, "VACUITY property="+spec.ID+" "+rw.o.Name+": "+rw.o.Desc+" ("+rw.o.Status+")")
			broken = true
		}
	}
	if nClaimed == 0 {
		lines = append(lines, "CHECK-BROKEN property="+spec.ID+" no claimed obligations")
		broken = true
	}
	// known findings that no longer fail are reported (informational)
	for _, l := range lines {
		fmt.Println(l)
	}
	if violations > 0 {
		exit = 1
	} else if broken {
		exit = 2
	}
	wall := time.Since(t0).Seconds()

	// evidence
	trusted := []string{
		"go/ssa (x/tools v0.29.0, NaiveForm) lowers the Go source faithfully; go/types is right",
		"SMT solvers (z3 5.1.0, z3 4.8.12, cvc5 1.0) answer unsat only for unsatisfiable goals",
		"amd64: int is 64 bits, little-endian; machine integers are exact bit-vectors (no mathematical-integer abstraction)",
		"single thread of execution: shared words (atomics, mapped file) are volatile; nothing is proved about other threads",
		"panic unwinding is not modelled: functions are proved panic-free instead",
		"goroutine bodies and timer callbacks are not verified",
		"float32 and float64 share one sort (IEEE double): a conversion between them is the identity for the engine, so precision lost in a float32 is not seen (types whose precision matters are pinned structurally)",
	}
	for a := range assumed {
		trusted = append(trusted, "assumed library contract: "+a)
	}
	sort.Strings(trusted[7:])
	var unm []string
	for u := range unmodelled {
		unm = append(unm, u)
	}
	sort.Strings(unm)
	var inl []string
	for u := range inlined {
		inl = append(inl, u)
	}
	sort.Strings(inl)
	for _, rn := range cr.eng.renameNotes {
		notes[rn] = true
	}
	var nts []string
	for u := range notes {
		nts = append(nts, u)
	}
	sort.Strings(nts)
	if len(samples) == 0 {
		for _, name := range claimedOrder {
			if rw := byName[name]; rw != nil && rw.ok {
				samples = append(samples, map[string]interface{}{"obligation": rw.o.Name, "kind": rw.o.Kind, "where": posStr(rw.o), "statement": rw.o.Desc, "smt_goal": truncStr(goalString(rw.o), 600)})
				break
			}
		}
	}
	cov := map[string]interface{}{
		"obligations":              nClaimed,
		"discharged":               discharged,
		"checker_cmd":              "bin/govc check -prop " + spec.ID + " -tier " + *tier,
		"trusted_base":             trusted,
		"functions_under_contract": funcs,
		"inlined":                  inl,
		"unmodelled_callees":       unm,
		"engine_notes":             nts,
		"backends":                 backends,
		"solver_time_s":            float64(solverMs) / 1000.0,
		"slowest_obligations": func() []map[string]interface{} {
			rs := append([]*row{}, rows...)
			sort.Slice(rs, func(i, j int) bool { return rs[i].o.Millis > rs[j].o.Millis })
			var out []map[string]interface{}
			for i := 0; i < len(rs) && i < 10; i++ {
				out = append(out, map[string]interface{}{"obligation": rs[i].o.Name, "ms": rs[i].o.Millis, "solver": rs[i].o.Solver})
			}
			return out
		}(),
		"solver_wall_s":            solveWall,
		"load_s":                   cr.loadSecs,
		"vcgen_s":                  cr.genSecs,
		"vacuity_checks":           vacuity,
		"vacuity_inconclusive":     coverInconclusive,
		"unreachable_return_points": unreachable,
		"generated_obligations":    len(rows),
		"undecided_new":            undecided,
		"known_findings":           known,
		"not_decided":              spec.NotDecided,
		"bounded_standins":         spec.Bounded,
		"samples":                  samples,
		"contract_mirror_used":     cr.eng.mirrorUsed,
		"explanation":              "every obligation is an SMT query generated from /repo's current source (go/ssa) and the //@ contracts; discharged = unsat of assumptions ∧ path ∧ ¬goal",
	}
	ev := evidence{PropertyID: spec.ID, Tier: *tier, Seed: seed, Level: "proof", Coverage: cov, Assumptions: spec.Assumptions, WallS: wall, Violations: violations}
	evDir := filepath.Join(verifDir(), "evidence")
	if d := os.Getenv("GOVC_EVIDENCE_DIR"); d != "" {
		// the self-test runs the checks on deliberately broken trees: its evidence must not
		// replace the evidence of the unchanged tree
		evDir = d
	}
	os.MkdirAll(evDir, 0755)
	data, _ := json.MarshalIndent(ev, "", " ")
	os.WriteFile(filepath.Join(evDir, spec.ID+".json"), data, 0644)
	fmt.Printf("%s %s: claimed=%d discharged=%d violations=%d known-findings=%d undecided-new=%d generated=%d wall=%.1fs\n", spec.ID, *tier, nClaimed, discharged, violations, known, undecided, len(rows), wall)
	os.Exit(exit)
}

var (
	reSafety = regexp.MustCompile(`/(bounds|slice|nil|div|shift|nilmap|assertT|makeslice|conv|panic)#\d+$`)
	rePre    = regexp.MustCompile(`/pre@([^#]+)#\d+\.[A-Za-z0-9]+$`)
	reCall   = regexp.MustCompile(`/call#\d+\.([a-z-]+)$`)
	reFrame  = regexp.MustCompile(`/(frame-init|frame-pres)@loop(\d+)#\d+$`)
)

// groupName maps an obligation name to the name under which it is claimed. Automatic safety obligations
// and call-site preconditions are claimed per function and kind ("all of them discharge"), so that an
// unrelated edit which shifts their ordinals is not a contract mismatch; obligations that stem from a
// contract clause keep their exact name.
func groupName(n string) string {
	if m := reSafety.FindStringSubmatchIndex(n); m != nil {
		return n[:m[0]] + "/" + n[m[2]:m[3]] + "#*"
	}
	if m := rePre.FindStringSubmatchIndex(n); m != nil {
		return n[:m[0]] + "/pre@" + n[m[2]:m[3]] + "#*"
	}
	if m := reCall.FindStringSubmatchIndex(n); m != nil {
		return n[:m[0]] + "/call#*." + n[m[2]:m[3]]
	}
	if m := reFrame.FindStringSubmatchIndex(n); m != nil {
		return n[:m[0]] + "/" + n[m[2]:m[3]] + "@loop" + n[m[4]:m[5]] + "#*"
	}
	return n
}

func uniq(s []string) []string {
	var out []string
	for i, x := range s {
		if i == 0 || x != s[i-1] {
			out = append(out, x)
		}
	}
	return out
}

func posStr(o *Obligation) string {
	f := o.Pos.Filename
	if strings.HasPrefix(f, "/repo/") {
		f = f[6:]
	}
	return fmt.Sprintf("%s:%d", f, o.Pos.Line)
}

func goalString(o *Obligation) string {
	p := NewPrinter([]*Term{o.Guard, o.Goal})
	return "(=> " + p.Str(o.Guard) + " " + p.Str(o.Goal) + ")"
}

func matchFinding(fs []Finding, prop, obl string) *Finding {
	for i := range fs {
		f := &fs[i]
		if f.Kind == "finding" && f.Property == prop && f.Obligation == obl {
			return f
		}
	}
	return nil
}

type constantValue = constant.Value

// ProvePin checks a pinned constant.
func (e *Engine) ProvePin(pd *ConstPin) *ProofResult {
	sp := e.spkgs[pd.Pkg]
	p := e.newProof(nil)
	p.fname = sp.Pkg.Name() + ".const:" + pd.Name
	res := &ProofResult{Func: p.fname, File: pd.File, Line: pd.Line, proof: p}
	if strings.HasPrefix(pd.Name, "callers:") {
		target := strings.TrimPrefix(pd.Name, "callers:")
		got := e.callersOf(pd.Pkg, target)
		goal := False()
		desc := "the functions calling " + target + " are exactly: " + pd.Lit
		if got == pd.Lit {
			goal = True()
		} else {
			desc += " (found: " + got + ")"
		}
		o := &Obligation{Name: p.fname, Kind: "const", Guard: True(), Goal: goal, Desc: desc, Fn: p.fname}
		o.Pos.Filename, o.Pos.Line = pd.File, pd.Line
		p.obligations = append(p.obligations, o)
		res.Obligations = p.obligations
		return res
	}
	obj := sp.Pkg.Scope().Lookup(pd.Name)
	goal := False()
	desc := "constant " + pd.Name + " == " + pd.Lit
	if tn, ok := obj.(*types.TypeName); ok {
		// a pinned type: its underlying type is the one named (e.g. a report ID is a float64, not a float32)
		got := types.TypeString(tn.Type().Underlying(), nil)
		desc = "type " + pd.Name + " has the underlying type " + pd.Lit
		if got == pd.Lit {
			goal = True()
		} else {
			desc += " (found " + got + ")"
		}
	} else if c, ok := obj.(interface{ Val() constantValue }); ok {
		got := c.Val().ExactString()
		want := pd.Lit
		if got == want {
			goal = True()
		} else {
			desc += " (found " + got + ")"
		}
	}
	o := &Obligation{Name: p.fname, Kind: "const", Guard: True(), Goal: goal, Desc: desc, Fn: p.fname}
	o.Pos.Filename, o.Pos.Line = pd.File, pd.Line
	p.obligations = append(p.obligations, o)
	res.Obligations = p.obligations
	return res
}

// callersOf lists (sorted, comma separated) the functions of the loaded non-library packages that
// contain a static call of pkg.name; any other reference to the function (as a value) adds "(value)".
func (e *Engine) callersOf(pkg, name string) string {
	set := map[string]bool{}
	isTarget := func(f *ssa.Function) bool {
		return f != nil && f.Pkg != nil && f.Pkg.Pkg.Path() == pkg && e.funcDisplayNameShort(f) == name
	}
	for fn := range ssautil.AllFunctions(e.prog) {
		if fn.Pkg == nil || e.spkgs[fn.Pkg.Pkg.Path()] == nil {
			if fn.Parent() == nil {
				continue
			}
		}
		for _, b := range fn.Blocks {
			for _, in := range b.Instrs {
				var callee *ssa.Function
				if ci, ok := in.(ssa.CallInstruction); ok {
					callee = ci.Common().StaticCallee()
					if isTarget(callee) {
						set[e.funcDisplayNameShort(fn)] = true
					}
				}
				for _, op := range in.Operands(nil) {
					if op == nil || *op == nil {
						continue
					}
					if f, ok := (*op).(*ssa.Function); ok && isTarget(f) {
						if ci, isCall := in.(ssa.CallInstruction); isCall && ci.Common().Value == f {
							continue
						}
						set["(value)"] = true
					}
				}
			}
		}
	}
	var names []string
	for n := range set {
		names = append(names, n)
	}
	sort.Strings(names)
	return strings.Join(names, ",")
}

func (e *Engine) funcDisplayNameShort(f *ssa.Function) string {
	n := e.funcDisplayName(f)
	if i := strings.Index(n, "."); i >= 0 && f.Signature.Recv() == nil {
		return n[i+1:]
	}
	if i := strings.Index(n, "."); i >= 0 {
		return n[i+1:]
	}
	return n
}
