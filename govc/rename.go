package main

// Rebinding of contract identifiers after a pure rename.
//
// Contracts name parameters, named results, locals and captured variables by their
// source names. So that a harmless rename (same declarations, same types, same
// order, other names) does not detach a contract from its function, the *shape* of
// every function under contract is recorded next to the claimed obligation names
// (/verif/obligations/shapes.json, written by `check -update-names` only). At load
// time a function whose current shape differs from the recorded one in names only
// has the old names in its contract's expressions replaced by the new ones. Any
// other difference (a declaration added, removed, retyped or reordered) leaves the
// contract as written.

import (
	"encoding/json"
	"fmt"
	"go/ast"
	"go/types"
	"os"
	"path/filepath"
	"sort"

	"golang.org/x/tools/go/ssa"
)

type shapeEntry struct {
	Kind string `json:"k"` // param | freevar | local
	Name string `json:"n"`
	Type string `json:"t"`
}

func shapesPath() string { return filepath.Join(verifDir(), "obligations", "shapes.json") }

func funcShape(fn *ssa.Function) []shapeEntry {
	var out []shapeEntry
	for _, p := range fn.Params {
		out = append(out, shapeEntry{"param", p.Name(), types.TypeString(p.Type(), nil)})
	}
	for _, fv := range fn.FreeVars {
		out = append(out, shapeEntry{"freevar", fv.Name(), types.TypeString(fv.Type(), nil)})
	}
	var allocs []*ssa.Alloc
	for _, b := range fn.Blocks {
		for _, in := range b.Instrs {
			if a, ok := in.(*ssa.Alloc); ok && a.Pos().IsValid() && a.Comment != "" {
				allocs = append(allocs, a)
			}
		}
	}
	sort.SliceStable(allocs, func(i, j int) bool { return allocs[i].Pos() < allocs[j].Pos() })
	for _, a := range allocs {
		out = append(out, shapeEntry{"local", a.Comment, types.TypeString(a.Type(), nil)})
	}
	return out
}

// recordShapes merges the shapes of all functions under contract in this engine into shapes.json.
func (e *Engine) recordShapes() {
	all := map[string][]shapeEntry{}
	if data, err := os.ReadFile(shapesPath()); err == nil {
		json.Unmarshal(data, &all)
	}
	for key, c := range e.cons {
		fns := e.instances(c.Pkg, c.Func)
		if len(fns) == 0 {
			continue
		}
		all[key] = funcShape(fns[0])
	}
	data, _ := json.Marshal(all)
	// one function per line keeps diffs readable
	var keys []string
	for k := range all {
		keys = append(keys, k)
	}
	sort.Strings(keys)
	out := []byte("{\n")
	for i, k := range keys {
		kb, _ := json.Marshal(k)
		vb, _ := json.Marshal(all[k])
		out = append(out, ' ')
		out = append(out, kb...)
		out = append(out, ':', ' ')
		out = append(out, vb...)
		if i < len(keys)-1 {
			out = append(out, ',')
		}
		out = append(out, '\n')
	}
	out = append(out, '}', '\n')
	_ = data
	os.WriteFile(shapesPath(), out, 0644)
}

// applyRenames rebinds contract identifiers of functions whose declarations were only renamed.
func (e *Engine) applyRenames() {
	data, err := os.ReadFile(shapesPath())
	if err != nil {
		return
	}
	all := map[string][]shapeEntry{}
	if json.Unmarshal(data, &all) != nil {
		return
	}
	var keys []string
	for k := range e.cons {
		keys = append(keys, k)
	}
	sort.Strings(keys)
	for _, key := range keys {
		c := e.cons[key]
		rec, ok := all[key]
		if !ok {
			continue
		}
		fns := e.instances(c.Pkg, c.Func)
		if len(fns) == 0 {
			continue
		}
		cur := funcShape(fns[0])
		if len(cur) != len(rec) {
			continue
		}
		ren := map[string]string{}
		curNames := map[string]bool{}
		okShape := true
		for i := range cur {
			curNames[cur[i].Name] = true
			if cur[i].Kind != rec[i].Kind || cur[i].Type != rec[i].Type {
				okShape = false
				break
			}
		}
		if !okShape {
			continue
		}
		conflict := map[string]bool{}
		for i := range cur {
			if cur[i].Name == rec[i].Name {
				continue
			}
			if prev, ok := ren[rec[i].Name]; ok && prev != cur[i].Name {
				conflict[rec[i].Name] = true
			}
			ren[rec[i].Name] = cur[i].Name
		}
		for n := range conflict {
			delete(ren, n)
		}
		// a name that still denotes some declaration of the function keeps its meaning
		for old := range ren {
			if curNames[old] {
				delete(ren, old)
			}
		}
		if len(ren) == 0 {
			continue
		}
		renameContract(c, ren)
		var pairs []string
		for o, n := range ren {
			pairs = append(pairs, o+"->"+n)
		}
		sort.Strings(pairs)
		e.renameNotes = append(e.renameNotes, fmt.Sprintf("%s: declarations renamed without other change; contract identifiers rebound %v", key, pairs))
	}
}

func renameContract(c *Contract, ren map[string]string) {
	var exprs []ast.Expr
	for _, cl := range c.Requires {
		exprs = append(exprs, cl.Expr)
	}
	for _, cl := range c.Ensures {
		exprs = append(exprs, cl.Expr)
	}
	for _, cl := range c.Assumes {
		exprs = append(exprs, cl.Expr)
	}
	for _, cl := range c.Modifies {
		exprs = append(exprs, cl.Expr)
	}
	for _, cl := range c.Loops {
		exprs = append(exprs, cl.Expr)
	}
	for _, cl := range c.AtCalls {
		exprs = append(exprs, cl.Expr)
	}
	for _, x := range exprs {
		if x == nil {
			continue
		}
		renameIn(x, ren, map[string]int{})
	}
}

// renameIn renames free identifiers; names bound by quantifier literals keep their meaning.
func renameIn(n ast.Node, ren map[string]string, bound map[string]int) {
	switch v := n.(type) {
	case nil:
		return
	case *ast.Ident:
		if nn, ok := ren[v.Name]; ok && bound[v.Name] == 0 {
			v.Name = nn
		}
		return
	case *ast.SelectorExpr:
		renameIn(v.X, ren, bound)
		return
	case *ast.KeyValueExpr:
		if _, isId := v.Key.(*ast.Ident); !isId {
			renameIn(v.Key, ren, bound)
		}
		renameIn(v.Value, ren, bound)
		return
	case *ast.FuncLit:
		var names []string
		if v.Type != nil && v.Type.Params != nil {
			for _, f := range v.Type.Params.List {
				for _, id := range f.Names {
					names = append(names, id.Name)
				}
				renameIn(f.Type, ren, bound) // type names are not locals, but harmless
			}
		}
		for _, nm := range names {
			bound[nm]++
		}
		renameIn(v.Body, ren, bound)
		for _, nm := range names {
			bound[nm]--
		}
		return
	}
	// generic traversal of the direct children
	first := true
	ast.Inspect(n, func(c ast.Node) bool {
		if first {
			first = false
			return true
		}
		if c != nil {
			renameIn(c, ren, bound)
		}
		return false
	})
}
