package main

// Assumed contracts of os / file-system primitives. Every one of them may fail with any error
// (that *is* the fault model of C05); the only facts assumed are listed in the doc strings.

import (
	"strings"
	"fmt"
	"go/types"

	"golang.org/x/tools/go/ssa"
)

// freshSliceResult: a slice returned by a library call: nil, or backed by an array allocated by the call.
func (p *Proof) freshSliceResult(st *State, t types.Type, name string) SliceV {
	s := freshValue(t, name).(SliceV)
	old := st.HeapTop
	st.HeapTop = p.bumpHeapTop(st.HeapTop, "heaptop")
	p.assume(True(), p.typeInv(st, t, s))
	p.assume(True(), Or(Eq(s.Ref, BVInt(0, 64)), BVUge(s.Ref, old)))
	return s
}

func ghostInc(g *Term) *Term {
	if g.Sort == SInt {
		return IntAdd(g, IntConst(big1))
	}
	return BVAdd(g, BVInt(1, g.Width()))
}

func freshErr(p *Proof, name string) IfaceV {
	return IfaceV{Ref: B.Fresh(name, SRef)}
}

func isNil(v Value) *Term {
	switch x := v.(type) {
	case IfaceV:
		return Eq(x.Ref, BVInt(0, 64))
	case PtrV:
		return x.Null
	}
	panic("isNil")
}

func freshPtr(p *Proof, st *State, elem types.Type, name string) PtrV {
	r := B.Fresh(name, SRef)
	p.assume(True(), BVUlt(r, BVConst(new(bigInt).Lsh(big1, 62), 64)))
	return PtrV{Kind: KObj, Elem: elem, Ref: r, Null: Eq(r, BVInt(0, 64))}
}

func fileSizeFn(info *Term) *Term {
	B.DeclareFun("fileinfo.size", []string{SRef}, SBV(64))
	return B.App("fileinfo.size", SBV(64), info)
}

func init() {
	// $fsops (if declared) counts operations that create, change or remove files.
	fsop := func(st *State) {
		if g, ok := st.Ghost["fsops"]; ok {
			st.Ghost["fsops"] = ghostInc(g)
		}
	}
	resultPtrErr := func(name string) libFn {
		return func(fr *Frame, in ssa.Instruction, st *State, args []Value, rt types.Type) Value {
			p := fr.p
			tt := rt.(*types.Tuple)
			pt := tt.At(0).Type().Underlying().(*types.Pointer)
			f := freshPtr(p, st, pt.Elem(), name)
			e := freshErr(p, name+".err")
			// exactly one of (value, error) is meaningful: err == nil <=> result != nil
			p.assume(True(), Eq(Eq(e.Ref, BVInt(0, 64)), Not(f.Null)))
			if name == "os.OpenFile" {
				if _, ok := st.Ghost["minsize"]; ok {
					st.Ghost["minsize"] = BVInt(0, 64)
				}
				// O_CREATE == 0x40 on linux: opening with it may create a file
				if g, ok := st.Ghost["fsops"]; ok {
					flag := sTerm(args[1])
					creates := Neq(BVAnd(flag, BVInt(0x40, 64)), BVInt(0, 64))
					st.Ghost["fsops"] = Ite(creates, ghostInc(g), g)
				}
			}
			if name == "os.Create" {
				if g, ok := st.Ghost["fsops"]; ok {
					st.Ghost["fsops"] = ghostInc(g)
				}
			}
			// $trunc (if declared): the last open for writing truncates an existing file
			// (os.Create always; os.OpenFile iff O_TRUNC, 0x200 on linux, is in the flags)
			if _, ok := st.Ghost["trunc"]; ok {
				switch name {
				case "os.Create":
					st.Ghost["trunc"] = True()
				case "os.OpenFile":
					st.Ghost["trunc"] = Neq(BVAnd(sTerm(args[1]), BVInt(0x200, 64)), BVInt(0, 64))
				}
			}
			return TupleV{f, e}
		}
	}
	reg("os.OpenFile", "may fail with any error; err==nil <=> file != nil; resets the ghost lower bound of the file size", resultPtrErr("os.OpenFile"))
	reg("os.Open", "may fail with any error; err==nil <=> file != nil", resultPtrErr("os.Open"))
	reg("os.Create", "may fail with any error; err==nil <=> file != nil", resultPtrErr("os.Create"))
	for _, k := range []string{"os.OpenFile", "os.Open", "os.Create"} {
		libEffTable[k] = func(e *effects) { e.ghost["minsize"] = true; e.ghost["fsops"] = true; e.ghost["trunc"] = true }
	}

	reg("(*os.File).Stat", "may fail; err==nil => info != nil, 0 <= info.Size() < 4 GiB (scoping), and info.Size() >= every size observed before on this descriptor (files are not truncated by others)", func(fr *Frame, in ssa.Instruction, st *State, args []Value, rt types.Type) Value {
		p := fr.p
		info := IfaceV{Ref: B.Fresh("fileinfo", SRef)}
		e := freshErr(p, "stat.err")
		p.assume(True(), Eq(Eq(e.Ref, BVInt(0, 64)), Neq(info.Ref, BVInt(0, 64))))
		sz := fileSizeFn(info.Ref)
		// scoping assumption: files handled by this library are smaller than 4 GiB
		p.assume(True(), And(BVSle(BVInt(0, 64), sz), BVSlt(sz, BVConst(new(bigInt).Lsh(big1, 32), 64))))
		if ms, ok := st.Ghost["minsize"]; ok {
			p.assume(st.Guard, Implies(Eq(e.Ref, BVInt(0, 64)), BVSle(ms, sz)))
			st.Ghost["minsize"] = Ite(Eq(e.Ref, BVInt(0, 64)), sz, ms)
		}
		return TupleV{info, e}
	})
	libEffTable["(*os.File).Stat"] = func(e *effects) { e.ghost["minsize"] = true }
	reg("iface:fs.FileInfo.Size", "the size observed by Stat", func(fr *Frame, in ssa.Instruction, st *State, args []Value, rt types.Type) Value {
		return Scalar{fileSizeFn(args[0].(IfaceV).Ref)}
	})
	libEffTable["iface:fs.FileInfo.Size"] = noEffect
	reg("iface:os.FileInfo.Size", "the size observed by Stat", func(fr *Frame, in ssa.Instruction, st *State, args []Value, rt types.Type) Value {
		return Scalar{fileSizeFn(args[0].(IfaceV).Ref)}
	})
	libEffTable["iface:os.FileInfo.Size"] = noEffect

	anyIntErr := func(name string) libFn {
		return func(fr *Frame, in ssa.Instruction, st *State, args []Value, rt types.Type) Value {
			p := fr.p
			// (*os.File)(nil) methods return ErrInvalid; no panic
			fsop(st)
			return TupleV{Scalar{B.Fresh(name+".n", SBV(64))}, freshErr(p, name+".err")}
		}
	}
	reg("(*os.File).WriteAt", "may fail with any error; does not touch program memory", anyIntErr("writeat"))
	reg("(*os.File).Write", "may fail with any error; does not touch program memory", anyIntErr("write"))
	reg("(*os.File).WriteString", "may fail with any error", anyIntErr("writestring"))
	for _, k := range []string{"(*os.File).WriteAt", "(*os.File).Write", "(*os.File).WriteString"} {
		libEffTable[k] = func(e *effects) { e.ghost["fsops"] = true }
	}
	reg("(*os.File).Close", "may fail with any error", func(fr *Frame, in ssa.Instruction, st *State, args []Value, rt types.Type) Value {
		return freshErr(fr.p, "close.err")
	})
	libEffTable["(*os.File).Close"] = noEffect
	reg("(*os.File).Name", "returns a string", func(fr *Frame, in ssa.Instruction, st *State, args []Value, rt types.Type) Value {
		if pv, ok := args[0].(PtrV); ok && in != nil {
			fr.nilCheckRecv(in, st, pv, "Name")
		}
		return freshStr(fr.p, st, "file.name")
	})
	libEffTable["(*os.File).Name"] = noEffect
	reg("(*os.File).Fd", "returns a descriptor number", func(fr *Frame, in ssa.Instruction, st *State, args []Value, rt types.Type) Value {
		return Scalar{B.Fresh("fd", SBV(64))}
	})
	libEffTable["(*os.File).Fd"] = noEffect

	errOnly := func(name string) libFn {
		return func(fr *Frame, in ssa.Instruction, st *State, args []Value, rt types.Type) Value {
			switch name {
			case "writefile", "remove", "rename":
				fsop(st)
			}
			return freshErr(fr.p, name+".err")
		}
	}
	reg("os.MkdirAll", "may fail with any error", errOnly("mkdirall"))
	reg("os.Mkdir", "may fail with any error", errOnly("mkdir"))
	reg("os.WriteFile", "may fail with any error; does not touch program memory", errOnly("writefile"))
	reg("os.Remove", "may fail with any error", errOnly("remove"))
	reg("os.Rename", "may fail with any error", errOnly("rename"))
	reg("os.Setenv", "may fail with any error", errOnly("setenv"))
	for _, k := range []string{"os.MkdirAll", "os.Mkdir", "os.Setenv"} {
		libEffTable[k] = noEffect
	}
	for _, k := range []string{"os.WriteFile", "os.Remove", "os.Rename"} {
		libEffTable[k] = func(e *effects) { e.ghost["fsops"] = true }
	}
	reg("os.ReadFile", "may fail with any error; on success returns fresh bytes of any content and any length below 4 GiB (scoping)", func(fr *Frame, in ssa.Instruction, st *State, args []Value, rt types.Type) Value {
		p := fr.p
		tt := rt.(*types.Tuple)
		s := p.freshSliceResult(st, tt.At(0).Type(), "readfile")
		// scoping assumption: files handled by this library are smaller than 4 GiB
		p.assume(True(), BVSlt(s.Len, BVConst(new(bigInt).Lsh(big1, 32), 64)))
		return TupleV{s, freshErr(p, "readfile.err")}
	})
	libEffTable["os.ReadFile"] = func(e *effects) { e.alloc = true }
	reg("os.Getenv", "returns any string", func(fr *Frame, in ssa.Instruction, st *State, args []Value, rt types.Type) Value {
		return freshStr(fr.p, st, "getenv")
	})
	libEffTable["os.Getenv"] = noEffect
	reg("os.Getpagesize", "returns 4096, 8192, 16384 or 65536", func(fr *Frame, in ssa.Instruction, st *State, args []Value, rt types.Type) Value {
		r := B.Fresh("pagesize", SBV(64))
		fr.p.assume(True(), Or(Eq(r, BVInt(4096, 64)), Eq(r, BVInt(8192, 64)), Eq(r, BVInt(16384, 64)), Eq(r, BVInt(65536, 64))))
		return Scalar{r}
	})
	libEffTable["os.Getpagesize"] = noEffect
	reg("os.Exit", "does not return", func(fr *Frame, in ssa.Instruction, st *State, args []Value, rt types.Type) Value {
		st.Guard = False()
		return nil
	})

	reg("path/filepath.Join", "a function of its arguments (up to 4; content uninterpreted)", func(fr *Frame, in ssa.Instruction, st *State, args []Value, rt types.Type) Value {
		p := fr.p
		var parts []*Term
		if len(args) == 1 {
			if sl, ok := args[0].(SliceV); ok && sl.Len.IsConst() && sl.Len.ConstVal().IsInt64() && sl.Len.ConstVal().Int64() <= 4 {
				n := int(sl.Len.ConstVal().Int64())
				for i := 0; i < n; i++ {
					parts = append(parts, sTerm(p.loadElem(st, types.Typ[types.String], sl.Ref, BVAdd(sl.Off, BVInt(int64(i), 64)))))
				}
			} else if sc, ok := args[0].(Scalar); ok {
				parts = []*Term{sc.T}
			}
		} else if len(args) <= 4 {
			for _, a := range args {
				if sc, ok := a.(Scalar); ok {
					parts = append(parts, sc.T)
				}
			}
			if len(parts) != len(args) {
				parts = nil
			}
		}
		if len(parts) == 0 {
			return freshStr(p, st, "join")
		}
		var sorts []string
		for range parts {
			sorts = append(sorts, SStr)
		}
		name := fmt.Sprintf("fp.join%d", len(parts))
		B.DeclareFun(name, sorts, SStr)
		r := B.App(name, SStr, parts...)
		p.assume(True(), p.typeInv(st, types.Typ[types.String], Scalar{r}))
		return Scalar{r}
	})
	for _, k := range []string{"path/filepath.ToSlash", "path/filepath.FromSlash"} {
		reg(k, "the identity (the packages are loaded for GOOS=linux, where filepath.Separator is '/')", func(fr *Frame, in ssa.Instruction, st *State, args []Value, rt types.Type) Value {
			return args[0]
		})
		libEffTable[k] = noEffect
	}
	for _, k := range []string{"path/filepath.Clean", "path/filepath.Base", "path/filepath.Dir", "path.Base"} {
		fname := "fp." + strings.Replace(k[strings.Index(k, "/")+1:], "filepath.", "", 1)
		reg(k, "a function of its argument (content uninterpreted)", func(fr *Frame, in ssa.Instruction, st *State, args []Value, rt types.Type) Value {
			B.DeclareFun(fname, []string{SStr}, SStr)
			r := B.App(fname, SStr, sTerm(args[0]))
			fr.p.assume(True(), fr.p.typeInv(st, types.Typ[types.String], Scalar{r}))
			return Scalar{r}
		})
		libEffTable[k] = noEffect
	}
	for _, k := range []string{"path/filepath.Join", "path/filepath.Base", "path.Base", "path/filepath.Dir"} {
		libEffTable[k] = noEffect
	}
	reg("math/rand.Intn", "0 <= r < n", func(fr *Frame, in ssa.Instruction, st *State, args []Value, rt types.Type) Value {
		r := B.Fresh("rand", SBV(64))
		fr.p.assume(True(), And(BVSle(BVInt(0, 64), r), BVSlt(r, sTerm(args[0]))))
		return Scalar{r}
	})
	libEffTable["math/rand.Intn"] = noEffect

	reg("syscall.Mmap", "may fail; on success returns a fresh byte slice of exactly the requested length", func(fr *Frame, in ssa.Instruction, st *State, args []Value, rt types.Type) Value {
		p := fr.p
		tt := rt.(*types.Tuple)
		s := p.freshSliceResult(st, tt.At(0).Type(), "mmap")
		e := freshErr(p, "mmap.err")
		p.assume(True(), Implies(Eq(e.Ref, BVInt(0, 64)), And(Eq(s.Len, sTerm(args[2])), Neq(s.Ref, BVInt(0, 64)))))
		return TupleV{s, e}
	})
	libEffTable["syscall.Mmap"] = func(e *effects) { e.alloc = true }
	reg("syscall.Munmap", "may fail with any error", errOnly("munmap"))
	libEffTable["syscall.Munmap"] = noEffect

	reg("(*sync.Once).Do", "calls f at most once: here, either calls it now or not at all", func(fr *Frame, in ssa.Instruction, st *State, args []Value, rt types.Type) Value {
		p := fr.p
		fv, ok := args[1].(FuncV)
		if !ok || fv.Fn == nil {
			return fr.havocCall(in, "sync.Once.Do(dynamic)", args[1:], st, rt, nil)
		}
		run := B.Fresh("once.run", SBool)
		branch := st.clone()
		branch.Guard = And(st.Guard, run)
		rest := st.clone()
		rest.Guard = And(st.Guard, Not(run))
		fr.callFunc(in, fv.Fn, fv.Bindings, nil, branch, fv.Fn.Signature.Results())
		*st = *p.mergeStates([]*State{branch, rest})
		return nil
	})
	reg("runtime/debug.ReadBuildInfo", "returns (info, ok) with ok => info != nil", func(fr *Frame, in ssa.Instruction, st *State, args []Value, rt types.Type) Value {
		p := fr.p
		tt := rt.(*types.Tuple)
		pt := tt.At(0).Type().Underlying().(*types.Pointer)
		f := freshPtr(p, st, pt.Elem(), "buildinfo")
		ok := B.Fresh("buildinfo.ok", SBool)
		p.assume(True(), Implies(ok, Not(f.Null)))
		return TupleV{f, Scalar{ok}}
	})
	libEffTable["runtime/debug.ReadBuildInfo"] = noEffect
}

func (fr *Frame) nilCheckRecv(in ssa.Instruction, st *State, pv PtrV, what string) {
	if pv.Null == tFalse {
		return
	}
	fr.p.oblige(fr.siteName(in, "call")+".nilrecv", "nil", in.Pos(), st.Guard, Not(pv.Null), "method "+what+" called on a nil *os.File")
}
