package main

// Assumed contracts of library functions ("assume-only"): each handler is the executable form of a
// contract from DESIGN.md section 6 and is listed in evidence when used.

import (
	"fmt"
	"go/types"
	"strings"

	"golang.org/x/tools/go/ssa"
)

var libTable = map[string]libFn{}
var libEffTable = map[string]func(*effects){}
var libDoc = map[string]string{}

func (e *Engine) libHandler(key string) libFn {
	if h, ok := libTable[key]; ok {
		return func(fr *Frame, in ssa.Instruction, st *State, args []Value, rt types.Type) Value {
			fr.p.assumedLib[key+": "+libDoc[key]] = true
			return h(fr, in, st, args, rt)
		}
	}
	return nil
}

func (e *Engine) libEffects(key string) func(*effects) {
	return libEffTable[key]
}

func reg(key, doc string, h libFn) {
	libTable[key] = h
	libDoc[key] = doc
}

func noEffect(*effects) {}

func bytesEffect(e *effects) {
	k := elemsKey(types.Typ[types.Uint8], "")
	e.heap[k] = true
	e.heapSort[k] = SArr(SRef, SArr(SBV(64), SBV(8)))
}

func sTerm(v Value) *Term { return v.(Scalar).T }

func nonNilErr(p *Proof, prefix string) IfaceV {
	r := B.Fresh(prefix, SRef)
	p.assume(True(), Neq(r, BVInt(0, 64)))
	return IfaceV{Ref: r}
}

func freshStr(p *Proof, st *State, prefix string) Scalar {
	r := B.Fresh(prefix, SStr)
	p.assume(True(), p.typeInv(st, types.Typ[types.String], Scalar{r}))
	return Scalar{r}
}

const telemetryPath = "golang.org/x/telemetry"

func init() {
	nop := func(fr *Frame, in ssa.Instruction, st *State, args []Value, rt types.Type) Value { return nil }

	// --- debugging helpers of internal/counter: no-ops in production (GODEBUG without countertrace=1, CrashOnBugs=false)
	reg(telemetryPath+"/internal/counter.debugPrintf", "no-op unless GODEBUG=countertrace=1 (assumed off)", nop)
	reg(telemetryPath+"/internal/counter.debugFatalf", "no-op unless countertrace=1 or CrashOnBugs (assumed off)", nop)
	libEffTable[telemetryPath+"/internal/counter.debugPrintf"] = noEffect
	libEffTable[telemetryPath+"/internal/counter.debugFatalf"] = noEffect

	reg("runtime.KeepAlive", "no effect", nop)
	reg("runtime.Callers", "0 <= n <= len(pc); writes only into pc", func(fr *Frame, in ssa.Instruction, st *State, args []Value, rt types.Type) Value {
		s := args[1].(SliceV)
		fr.havocArg(st, s, 0)
		n := B.Fresh("callers.n", SBV(64))
		fr.p.assume(True(), And(BVSle(BVInt(0, 64), n), BVSle(n, s.Len)))
		return Scalar{n}
	})
	reg("runtime.CallersFrames", "returns a non-nil iterator", func(fr *Frame, in ssa.Instruction, st *State, args []Value, rt types.Type) Value {
		r := B.Fresh("frames", SRef)
		fr.p.assume(True(), Neq(r, BVInt(0, 64)))
		return PtrV{Kind: KObj, Elem: rt.Underlying().(*types.Pointer).Elem(), Ref: r, Null: False()}
	})
	libEffTable["runtime.CallersFrames"] = noEffect
	reg("(*runtime.Frames).Next", "returns an arbitrary frame and an arbitrary 'more' flag", func(fr *Frame, in ssa.Instruction, st *State, args []Value, rt types.Type) Value {
		return fr.freshResult(st, rt, "frames.next")
	})
	libEffTable["(*runtime.Frames).Next"] = noEffect
	reg("(*runtime.Func).FileLine", "returns an arbitrary file and line", func(fr *Frame, in ssa.Instruction, st *State, args []Value, rt types.Type) Value {
		return fr.freshResult(st, rt, "fileline")
	})
	libEffTable["(*runtime.Func).FileLine"] = noEffect
	libEffTable["runtime.KeepAlive"] = noEffect
	reg("(*sync.Mutex).Lock", "returns (single thread: no deadlock reasoning)", nop)
	reg("(*sync.Mutex).Unlock", "returns", nop)
	libEffTable["(*sync.Mutex).Lock"] = noEffect
	libEffTable["(*sync.Mutex).Unlock"] = noEffect
	reg("(*sync.RWMutex).Lock", "returns", nop)
	reg("(*sync.RWMutex).Unlock", "returns", nop)
	reg("(*sync.RWMutex).RLock", "returns", nop)
	reg("(*sync.RWMutex).RUnlock", "returns", nop)

	// --- atomics. Shared words are volatile: a load returns an arbitrary value, a CAS may fail or succeed.
	atomicLoad := func(w int) libFn {
		return func(fr *Frame, in ssa.Instruction, st *State, args []Value, rt types.Type) Value {
			p := fr.p
			pv := args[0].(PtrV)
			if in != nil {
				fr.nilCheck(in, st, pv)
			}
			if pv.Kind == KElem && isByte(pv.ArrElem) {
				fr.extentCheck(in, st, pv, w/8, "call")
				p.envStep(st, pv.Arr)
				return Scalar{p.readLE(st, pv.Arr, pv.Idx, w/8)}
			}
			// an atomic word reached through an opaque pointer: volatile, except that while the data is
			// private to the caller ($private) repeated loads of the same word agree
			fresh := B.Fresh("atomic.load", SBV(w))
			if g, ok := st.Ghost["private"]; ok && pv.Ref != nil && g.Sort == SBool {
				key := fmt.Sprintf("atomicword:%d", w)
				c := p.heapCell(st, key, SArr(SRef, SBV(w)))
				return Scalar{Ite(g, Select(c, pv.Ref), fresh)}
			}
			return Scalar{fresh}
		}
	}
	reg("(*sync/atomic.Uint32).Load", "volatile: returns an arbitrary value (exact little-endian read when the bytes are private to the caller, e.g. Parse)", atomicLoad(32))
	reg("(*sync/atomic.Uint64).Load", "volatile: returns an arbitrary value", atomicLoad(64))
	reg("(*sync/atomic.Int64).Load", "volatile: returns an arbitrary value", atomicLoad(64))
	reg("(*sync/atomic.Int32).Load", "volatile: returns an arbitrary value", atomicLoad(32))
	for _, k := range []string{"(*sync/atomic.Uint32).Load", "(*sync/atomic.Uint64).Load", "(*sync/atomic.Int64).Load", "(*sync/atomic.Int32).Load"} {
		libEffTable[k] = bytesEffect
	}
	atomicStore := func(w int) libFn {
		return func(fr *Frame, in ssa.Instruction, st *State, args []Value, rt types.Type) Value {
			p := fr.p
			pv := args[0].(PtrV)
			if in != nil {
				fr.nilCheck(in, st, pv)
			}
			if pv.Kind == KElem && isByte(pv.ArrElem) {
				fr.extentCheck(in, st, pv, w/8, "call")
				p.envStep(st, pv.Arr)
				p.writeLE(st, pv.Arr, pv.Idx, w/8, sTerm(args[1]))
			} else if _, ok := st.Ghost["private"]; ok && pv.Ref != nil {
				key := fmt.Sprintf("atomicword:%d", w)
				c := p.heapCell(st, key, SArr(SRef, SBV(w)))
				st.Heap[key] = Store(c, pv.Ref, sTerm(args[1]))
			}
			return nil
		}
	}
	reg("(*sync/atomic.Uint32).Store", "writes the word (bytes little-endian)", atomicStore(32))
	reg("(*sync/atomic.Uint64).Store", "writes the word", atomicStore(64))
	reg("sync/atomic.StoreUint32", "writes the word (bytes little-endian)", atomicStore(32))
	libEffTable["(*sync/atomic.Uint32).Store"] = bytesEffect
	libEffTable["(*sync/atomic.Uint64).Store"] = bytesEffect
	libEffTable["sync/atomic.StoreUint32"] = bytesEffect
	atomicCAS := func(w int) libFn {
		return func(fr *Frame, in ssa.Instruction, st *State, args []Value, rt types.Type) Value {
			p := fr.p
			pv := args[0].(PtrV)
			if in != nil {
				fr.nilCheck(in, st, pv)
			}
			ok := B.Fresh("cas.ok", SBool)
			if pv.Kind == KElem && isByte(pv.ArrElem) {
				fr.extentCheck(in, st, pv, w/8, "call")
				p.envStep(st, pv.Arr)
				// on success the word held old and now holds new; on failure unchanged by us
				cur := p.readLE(st, pv.Arr, pv.Idx, w/8)
				p.assume(st.Guard, Implies(ok, Eq(cur, sTerm(args[1]))))
				if pg, okp := st.Ghost["private"]; okp {
					p.assume(st.Guard, Implies(And(pg, Eq(cur, sTerm(args[1]))), ok))
				}
				s2 := st.clone()
				p.writeLE(s2, pv.Arr, pv.Idx, w/8, sTerm(args[2]))
				key := elemsKey(types.Typ[types.Uint8], "")
				st.Heap[key] = Ite(ok, s2.Heap[key], p.bytesCell(st))
			} else if _, okp := st.Ghost["private"]; okp && pv.Ref != nil {
				key := fmt.Sprintf("atomicword:%d", w)
				c := p.heapCell(st, key, SArr(SRef, SBV(w)))
				st.Heap[key] = Store(c, pv.Ref, B.Fresh("cas.word", SBV(w)))
			}
			return Scalar{ok}
		}
	}
	reg("(*sync/atomic.Uint32).CompareAndSwap", "arbitrary outcome; on success the word holds the new value", atomicCAS(32))
	reg("(*sync/atomic.Uint64).CompareAndSwap", "arbitrary outcome; on success the word holds the new value", atomicCAS(64))
	libEffTable["(*sync/atomic.Uint32).CompareAndSwap"] = bytesEffect
	libEffTable["(*sync/atomic.Uint64).CompareAndSwap"] = bytesEffect

	reg("(*sync/atomic.Pointer[T]).Load", "volatile: returns an arbitrary pointer of the element type (possibly nil) that satisfies the field's atomic-invariant, if one is declared", func(fr *Frame, in ssa.Instruction, st *State, args []Value, rt types.Type) Value {
		v := freshValue(rt, "aptr.load")
		fr.p.assume(True(), fr.p.typeInv(st, rt, v))
		if ai := fr.p.atomicInvFor(args[0]); ai != nil {
			fr.p.assume(st.Guard, fr.p.evalAtomicInv(ai, v, rt, st))
			fr.p.assumedLib["atomic-invariant "+ai.Key+" (checked at every Store/CompareAndSwap of the field, assumed at every Load): "+ai.Src] = true
		}
		return v
	})
	libEffTable["(*sync/atomic.Pointer[T]).Load"] = noEffect
	reg("(*sync/atomic.Pointer[T]).Store", "volatile store; the stored value must satisfy the field's atomic-invariant", func(fr *Frame, in ssa.Instruction, st *State, args []Value, rt types.Type) Value {
		if ai := fr.p.atomicInvFor(args[0]); ai != nil && in != nil {
			t := in.(*ssa.Call).Call.Args[1].Type()
			fr.p.oblige(fr.siteName(in, "call")+".atomic-inv", "assert", in.Pos(), st.Guard, fr.p.evalAtomicInv(ai, coerceNil(args[1], t), t, st), "value stored into "+ai.Key+" satisfies its invariant: "+ai.Src)
		}
		return nil
	})
	libEffTable["(*sync/atomic.Pointer[T]).Store"] = noEffect
	reg("(*sync/atomic.Pointer[T]).CompareAndSwap", "arbitrary outcome; the new value must satisfy the field's atomic-invariant", func(fr *Frame, in ssa.Instruction, st *State, args []Value, rt types.Type) Value {
		if ai := fr.p.atomicInvFor(args[0]); ai != nil && in != nil {
			t := in.(*ssa.Call).Call.Args[2].Type()
			fr.p.oblige(fr.siteName(in, "call")+".atomic-inv", "assert", in.Pos(), st.Guard, fr.p.evalAtomicInv(ai, coerceNil(args[2], t), t, st), "value stored into "+ai.Key+" satisfies its invariant: "+ai.Src)
		}
		return Scalar{B.Fresh("cas.ok", SBool)}
	})
	libEffTable["(*sync/atomic.Pointer[T]).CompareAndSwap"] = noEffect

	// --- strings / bytes
	hasPrefix := func(fr *Frame, in ssa.Instruction, st *State, args []Value, rt types.Type) Value {
		p := fr.p
		s, pre := sTerm(args[0]), sTerm(args[1])
		B.DeclareFun("gs.prefixof", []string{SStr, SStr}, SBool)
		r := B.App("gs.prefixof", SBool, pre, s)
		lp := strLen(pre)
		p.assume(True(), Implies(r, And(BVSle(lp, strLen(s)), Eq(p.strSub(True(), s, BVInt(0, 64), lp), pre))))
		p.assume(True(), Implies(And(BVSle(lp, strLen(s)), Eq(p.strSub(True(), s, BVInt(0, 64), lp), pre)), r))
		p.assume(True(), Implies(Eq(lp, BVInt(0, 64)), r))
		return Scalar{r}
	}
	reg("strings.HasPrefix", "r <=> len(p)<=len(s) && s[:len(p)]==p", hasPrefix)
	hasSuffix := func(fr *Frame, in ssa.Instruction, st *State, args []Value, rt types.Type) Value {
		p := fr.p
		s, suf := sTerm(args[0]), sTerm(args[1])
		B.DeclareFun("gs.suffixof", []string{SStr, SStr}, SBool)
		r := B.App("gs.suffixof", SBool, suf, s)
		ls, n := strLen(suf), strLen(s)
		tail := p.strSub(True(), s, BVSub(n, ls), n)
		p.assume(True(), Eq(r, And(BVSle(ls, n), Eq(tail, suf))))
		return Scalar{r}
	}
	reg("strings.HasSuffix", "r <=> len(x)<=len(s) && s[len(s)-len(x):]==x", hasSuffix)
	reg("strings.Contains", "r <=> Index(s,sub)>=0 (uninterpreted predicate with len(sub)<=len(s))", func(fr *Frame, in ssa.Instruction, st *State, args []Value, rt types.Type) Value {
		return Scalar{strContains(fr.p, sTerm(args[0]), sTerm(args[1]))}
	})
	reg("strings.ContainsAny", "for a literal set of ASCII characters: Contains(s, c) for some c of the set; otherwise arbitrary", func(fr *Frame, in ssa.Instruction, st *State, args []Value, rt types.Type) Value {
		chars := sTerm(args[1])
		if lit, ok := strLitOf[chars.id]; ok && len(lit) <= 8 {
			var ds []*Term
			for i := 0; i < len(lit); i++ {
				if lit[i] >= 0x80 {
					return Scalar{B.Fresh("containsany", SBool)}
				}
				ds = append(ds, strContains(fr.p, sTerm(args[0]), strLit(string(lit[i]))))
			}
			return Scalar{Or(ds...)}
		}
		return Scalar{B.Fresh("containsany", SBool)}
	})
	libEffTable["strings.ContainsAny"] = noEffect
	reg("strings.TrimSpace", "a function of s; r is a substring s[i:j]; r==s when s is empty", func(fr *Frame, in ssa.Instruction, st *State, args []Value, rt types.Type) Value {
		p := fr.p
		s := sTerm(args[0])
		B.DeclareFun("gs.trimspace", []string{SStr}, SStr)
		r := B.App("gs.trimspace", SStr, s)
		if !p.strSeen[r.id] {
			p.strSeen[r.id] = true
			B.DeclareFun("gs.trim.i", []string{SStr}, SBV(64))
			B.DeclareFun("gs.trim.j", []string{SStr}, SBV(64))
			i, j := B.App("gs.trim.i", SBV(64), s), B.App("gs.trim.j", SBV(64), s)
			p.assume(True(), And(BVSle(BVInt(0, 64), i), BVSle(i, j), BVSle(j, strLen(s))))
			p.assume(True(), Eq(r, p.strSub(True(), s, i, j)))
			p.assume(True(), And(BVSle(BVInt(0, 64), strLen(r)), BVSle(strLen(r), strLen(s))))
		}
		return Scalar{r}
	})
	reg("strings.TrimSuffix", "HasSuffix(s,x) ? s[:len(s)-len(x)] : s", func(fr *Frame, in ssa.Instruction, st *State, args []Value, rt types.Type) Value {
		p := fr.p
		s := sTerm(args[0])
		has := sTerm(hasSuffix(fr, in, st, args, nil))
		cut := p.strSub(True(), s, BVInt(0, 64), BVSub(strLen(s), strLen(sTerm(args[1]))))
		return Scalar{Ite(has, cut, s)}
	})
	reg("strings.TrimPrefix", "HasPrefix(s,x) ? s[len(x):] : s", func(fr *Frame, in ssa.Instruction, st *State, args []Value, rt types.Type) Value {
		p := fr.p
		s := sTerm(args[0])
		has := sTerm(hasPrefix(fr, in, st, args, nil))
		cut := p.strSub(True(), s, strLen(sTerm(args[1])), strLen(s))
		return Scalar{Ite(has, cut, s)}
	})
	strIndex := func(name string) libFn {
		return func(fr *Frame, in ssa.Instruction, st *State, args []Value, rt types.Type) Value {
			p := fr.p
			s, sep := sTerm(args[0]), sTerm(args[1])
			fn := B.DeclareFun("gs."+name, []string{SStr, SStr}, SBV(64))
			r := B.App(fn, SBV(64), s, sep)
			m1 := BVInt(-1, 64)
			p.assume(True(), Or(Eq(r, m1), And(BVSle(BVInt(0, 64), r), BVSle(r, BVSub(strLen(s), strLen(sep))),
				Eq(p.strSub(True(), s, r, BVAdd(r, strLen(sep))), sep))))
			p.assume(True(), Eq(Neq(r, m1), strContains(p, s, sep)))
			return Scalar{r}
		}
	}
	reg("strings.Index", "r==-1 || (0<=r && r+len(sep)<=len(s) && s[r:r+len(sep)]==sep); r>=0 <=> Contains", strIndex("index"))
	reg("strings.LastIndex", "r==-1 || (0<=r && r+len(sep)<=len(s) && s[r:r+len(sep)]==sep); r>=0 <=> Contains", strIndex("lastindex"))
	reg("strings.IndexByte", "r==-1 || (0<=r<len(s) && s[r]==c)", func(fr *Frame, in ssa.Instruction, st *State, args []Value, rt types.Type) Value {
		p := fr.p
		s, c := sTerm(args[0]), sTerm(args[1])
		fn := B.DeclareFun("gs.indexbyte", []string{SStr, SBV(8)}, SBV(64))
		r := B.App(fn, SBV(64), s, c)
		p.assume(True(), Or(Eq(r, BVInt(-1, 64)), And(BVSle(BVInt(0, 64), r), BVSlt(r, strLen(s)), Eq(strAt(s, r), c))))
		return Scalar{r}
	})
	reg("strings.Cut", "found ? s==before+sep+after && !Contains(before,sep) : before==s && after==\"\"", func(fr *Frame, in ssa.Instruction, st *State, args []Value, rt types.Type) Value {
		p := fr.p
		s, sep := sTerm(args[0]), sTerm(args[1])
		found := strContains(p, s, sep)
		i := sTerm(strIndex("index")(fr, in, st, args, nil))
		before := Ite(found, p.strSub(True(), s, BVInt(0, 64), i), s)
		after := Ite(found, p.strSub(True(), s, BVAdd(i, strLen(sep)), strLen(s)), strLit(""))
		p.assume(found, Not(strContains(p, p.strSub(True(), s, BVInt(0, 64), i), sep)))
		return TupleV{Scalar{before}, Scalar{after}, Scalar{found}}
	})
	reg("bytes.HasPrefix", "r <=> len(p)<=len(b) && b[:len(p)]==p (bytewise)", func(fr *Frame, in ssa.Instruction, st *State, args []Value, rt types.Type) Value {
		p := fr.p
		b, pre := args[0].(SliceV), args[1].(SliceV)
		r := B.Fresh("bytes.hasprefix", SBool)
		k := B.BoundVar("k", SBV(64))
		ba, pa := Select(p.bytesCell(st), b.Ref), Select(p.bytesCell(st), pre.Ref)
		// literal prefix: expand bytewise (explicit reads make counterexamples replayable)
		if pre.Len.Op == "gs.len" && len(pre.Len.Args) == 1 {
			if lit, ok := strLitOf[pre.Len.Args[0].id]; ok && len(lit) <= 64 && pre.Off.IsConst() && pre.Off.ConstVal().Sign() == 0 {
				var cs []*Term
				for i := 0; i < len(lit); i++ {
					cs = append(cs, Eq(Select(ba, BVAdd(b.Off, BVInt(int64(i), 64))), BVInt(int64(lit[i]), 8)))
				}
				p.assume(st.Guard, Eq(r, And(append([]*Term{BVSle(BVInt(int64(len(lit)), 64), b.Len)}, cs...)...)))
				return Scalar{r}
			}
		}
		same := Forall([]*Term{k}, Implies(And(BVSle(BVInt(0, 64), k), BVSlt(k, pre.Len)), Eq(Select(ba, BVAdd(b.Off, k)), Select(pa, BVAdd(pre.Off, k)))))
		p.assume(st.Guard, Eq(r, And(BVSle(pre.Len, b.Len), same)))
		return Scalar{r}
	})
	libEffTable["bytes.HasPrefix"] = noEffect
	reg("bytes.TrimSpace", "result is a sub-slice b[i:j]", func(fr *Frame, in ssa.Instruction, st *State, args []Value, rt types.Type) Value {
		p := fr.p
		b := args[0].(SliceV)
		i, j := B.Fresh("trim.i", SBV(64)), B.Fresh("trim.j", SBV(64))
		p.assume(True(), And(BVSle(BVInt(0, 64), i), BVSle(i, j), BVSle(j, b.Len)))
		return SliceV{Ref: b.Ref, Off: BVAdd(b.Off, i), Len: BVSub(j, i), Cap: BVSub(b.Cap, i), Elem: b.Elem}
	})
	libEffTable["bytes.TrimSpace"] = noEffect
	reg("bytes.IndexByte", "r==-1 (c does not occur) || 0<=r<len(b) && b[r]==c && no earlier occurrence", func(fr *Frame, in ssa.Instruction, st *State, args []Value, rt types.Type) Value {
		p := fr.p
		b, c := args[0].(SliceV), sTerm(args[1])
		r := B.Fresh("bytes.indexbyte", SBV(64))
		a := Select(p.bytesCell(st), b.Ref)
		k := B.BoundVar("k", SBV(64))
		z := BVInt(0, 64)
		found := And(BVSle(z, r), BVSlt(r, b.Len), Eq(Select(a, BVAdd(b.Off, r)), c),
			Forall([]*Term{k}, Implies(And(BVSle(z, k), BVSlt(k, r)), Neq(Select(a, BVAdd(b.Off, k)), c))))
		none := And(Eq(r, BVInt(-1, 64)), Forall([]*Term{k}, Implies(And(BVSle(z, k), BVSlt(k, b.Len)), Neq(Select(a, BVAdd(b.Off, k)), c))))
		p.assume(st.Guard, Or(found, none))
		return Scalar{r}
	})
	libEffTable["bytes.IndexByte"] = noEffect
	reg("strings.Split", "returns a fresh slice of at least one string (sep != \"\"); contents uninterpreted", func(fr *Frame, in ssa.Instruction, st *State, args []Value, rt types.Type) Value {
		p := fr.p
		ref := p.allocRef(st)
		n := B.Fresh("split.len", SBV(64))
		p.assume(True(), And(BVSle(BVInt(1, 64), n), BVSle(n, BVAdd(strLen(sTerm(args[0])), BVInt(1, 64)))))
		// element strings are well-formed
		et := rt.Underlying().(*types.Slice).Elem()
		return SliceV{Ref: ref, Off: BVInt(0, 64), Len: n, Cap: n, Elem: et}
	})
	libEffTable["strings.Split"] = func(e *effects) { e.alloc = true }
	reg("strings.Join", "returns a string (content uninterpreted)", func(fr *Frame, in ssa.Instruction, st *State, args []Value, rt types.Type) Value {
		return freshStr(fr.p, st, "join")
	})
	libEffTable["strings.Join"] = noEffect
	for _, k := range []string{"strings.HasPrefix", "strings.HasSuffix", "strings.Contains", "strings.TrimSpace", "strings.TrimSuffix", "strings.TrimPrefix", "strings.Index", "strings.LastIndex", "strings.IndexByte", "strings.Cut"} {
		libEffTable[k] = noEffect
	}

	// --- fmt / errors
	reg("fmt.Sprintf", "returns an arbitrary string", func(fr *Frame, in ssa.Instruction, st *State, args []Value, rt types.Type) Value {
		return freshStr(fr.p, st, "sprintf")
	})
	reg("fmt.Errorf", "returns a non-nil error", func(fr *Frame, in ssa.Instruction, st *State, args []Value, rt types.Type) Value {
		return nonNilErr(fr.p, "errorf")
	})
	reg("errors.New", "returns a non-nil error", func(fr *Frame, in ssa.Instruction, st *State, args []Value, rt types.Type) Value {
		return nonNilErr(fr.p, "errnew")
	})
	reg("fmt.Fprintln", "no effect on program state", func(fr *Frame, in ssa.Instruction, st *State, args []Value, rt types.Type) Value {
		return fr.freshResult(st, rt, "fprintln")
	})
	libEffTable["fmt.Fprintln"] = noEffect
	reg("fmt.Fprintf", "no effect on program state", func(fr *Frame, in ssa.Instruction, st *State, args []Value, rt types.Type) Value {
		return fr.freshResult(st, rt, "fprintf")
	})
	for _, k := range []string{"fmt.Sprintf", "fmt.Errorf", "errors.New", "fmt.Fprintf"} {
		libEffTable[k] = noEffect
	}
	_ = strings.ToLower
}

func (p *Proof) atomicInvFor(recv Value) *AtomicInv {
	pv, ok := recv.(PtrV)
	if !ok || p.eng.atomicInvs == nil || len(pv.Path) == 0 || pv.RootT == nil {
		return nil
	}
	n, ok := pv.RootT.(*types.Named)
	if !ok {
		return nil
	}
	ps, _ := pathString(pv.RootT, pv.Path)
	return p.eng.atomicInvs[n.Obj().Name()+ps]
}

func (p *Proof) evalAtomicInv(ai *AtomicInv, v Value, t types.Type, st *State) *Term {
	var pkg *types.Package
	if sp := p.eng.spkgs[ai.Pkg]; sp != nil {
		pkg = sp.Pkg
	}
	env := &CEnv{p: p, pkg: pkg, fn: p.fn, vars: map[string]cvar{ai.Var: {v, t}}, st: st}
	return env.evalBool(ai.Expr, ai.Src)
}

// envStep: before an atomic access to bytes shared with other processes, the environment may have
// changed them (unless the ghost $private says the bytes belong to this call alone).
func (p *Proof) envStep(st *State, arr *Term) {
	key := elemsKey(types.Typ[types.Uint8], "")
	c := p.bytesCell(st)
	fresh := B.Fresh("env.bytes", SArr(SBV(64), SBV(8)))
	if pg, ok := st.Ghost["private"]; ok {
		st.Heap[key] = Store(c, arr, Ite(pg, Select(c, arr), fresh))
		return
	}
	st.Heap[key] = Store(c, arr, fresh)
}

func strContains(p *Proof, s, sub *Term) *Term {
	B.DeclareFun("gs.contains", []string{SStr, SStr}, SBool)
	r := B.App("gs.contains", SBool, s, sub)
	if !p.strSeen[r.id] {
		p.strSeen[r.id] = true
		p.assume(True(), Implies(r, BVSle(strLen(sub), strLen(s))))
		p.assume(True(), Implies(Eq(strLen(sub), BVInt(0, 64)), r))
	}
	return r
}
