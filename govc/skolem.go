package main

// Goal skolemisation and hypothesis instantiation at the skolem constants: makes "the quantified
// invariant is preserved" obligations quantifier-free for the solver in the common case where the
// assumption and the goal quantify over the same index.

// skolemizeGoal replaces universal quantifiers in positive positions of goal by fresh constants.
func skolemizeGoal(goal *Term) (*Term, []*Term) {
	skTuples = nil
	var sks []*Term
	var pos, neg func(t *Term) *Term
	pos = func(t *Term) *Term {
		switch {
		case t.Op == "forall" && t.Bound != nil:
			sub := map[int]*Term{}
			var tup []*Term
			for _, b := range t.Bound {
				sk := B.Fresh("sk."+b.Op, b.Sort)
				sub[b.id] = sk
				sks = append(sks, sk)
				tup = append(tup, sk)
			}
			if len(tup) > 1 {
				skTuples = append(skTuples, tup)
			}
			return pos(Subst(t.Args[0], sub))
		case t.Op == "and" && t.Bound == nil:
			na := make([]*Term, len(t.Args))
			for i, a := range t.Args {
				na[i] = pos(a)
			}
			return And(na...)
		case t.Op == "=>" && len(t.Args) == 2:
			// an existential in the antecedent is a universal of the implication: (exists x. A) => B
			// is forall x. (A => B), so x can be a fresh constant as well
			return Implies(neg(t.Args[0]), pos(t.Args[1]))
		case t.Op == "=" && len(t.Args) == 2 && t.Args[0].Sort == SBool && t.Bound == nil && (hasQuant(t.Args[0], quantMemo) || hasQuant(t.Args[1], quantMemo)):
			// a <=> b with quantifiers inside: treat as the two implications
			a, b := t.Args[0], t.Args[1]
			return And(pos(Implies(a, b)), pos(Implies(b, a)))
		}
		return t
	}
	// neg: skolemise existentials in a formula that occurs as an antecedent (negative position)
	neg = func(t *Term) *Term {
		switch {
		case t.Op == "exists" && t.Bound != nil:
			sub := map[int]*Term{}
			for _, b := range t.Bound {
				sk := B.Fresh("sk."+b.Op, b.Sort)
				sub[b.id] = sk
				sks = append(sks, sk)
			}
			return neg(Subst(t.Args[0], sub))
		case t.Op == "and" && t.Bound == nil:
			na := make([]*Term, len(t.Args))
			for i, a := range t.Args {
				na[i] = neg(a)
			}
			return And(na...)
		}
		return t
	}
	return pos(goal), sks
}

// skTuples: the skolem tuples of the goal's multi-variable quantifiers (set by skolemizeGoal; the
// discharge of one obligation is sequential).
var skTuples [][]*Term

// instantiateAt returns, for an assumption, copies in which universally quantified subformulas in
// positive positions are replaced by their instances at the given constants (same sort).
func instantiateAt(a *Term, sks []*Term) []*Term {
	var out []*Term
	// quantifiers over several variables: instantiate at every combination of goal skolems of the
	// right sorts (at most 16 combinations), which covers positional tuples and nested goal quantifiers
	var multi func(t *Term) []*Term
	combos := func(bound []*Term) []map[int]*Term {
		res := []map[int]*Term{{}}
		for _, b := range bound {
			var next []map[int]*Term
			for _, sk := range sks {
				if sk.Sort != b.Sort {
					continue
				}
				for _, m := range res {
					nm := map[int]*Term{}
					for k, v := range m {
						nm[k] = v
					}
					nm[b.id] = sk
					next = append(next, nm)
				}
			}
			res = next
			if len(res) == 0 || len(res) > 16 {
				return nil
			}
		}
		return res
	}
	multi = func(t *Term) []*Term {
		switch {
		case t.Op == "forall" && len(t.Bound) > 1:
			var r []*Term
			for _, sub := range combos(t.Bound) {
				r = append(r, Subst(t.Args[0], sub))
			}
			return r
		case t.Op == "and" && t.Bound == nil:
			var r []*Term
			for _, x := range t.Args {
				r = append(r, multi(x)...)
			}
			return r
		case t.Op == "=>" && len(t.Args) == 2:
			var r []*Term
			for _, x := range multi(t.Args[1]) {
				r = append(r, Implies(t.Args[0], x))
			}
			return r
		}
		return nil
	}
	out = append(out, multi(a)...)
	for _, sk := range sks {
		changed := false
		var pos func(t *Term) *Term
		pos = func(t *Term) *Term {
			switch {
			case t.Op == "forall" && len(t.Bound) == 1 && t.Bound[0].Sort == sk.Sort:
				changed = true
				return Subst(t.Args[0], map[int]*Term{t.Bound[0].id: sk})
			case t.Op == "and" && t.Bound == nil:
				na := make([]*Term, len(t.Args))
				for i, x := range t.Args {
					na[i] = pos(x)
				}
				return And(na...)
			case t.Op == "=>" && len(t.Args) == 2:
				return Implies(t.Args[0], pos(t.Args[1]))
			}
			return t
		}
		r := pos(a)
		if changed {
			out = append(out, r)
		}
	}
	return out
}
