package main

// Contract files: parsing of //@ lines and evaluation of contract expressions.

import (
	"sort"
	"fmt"
	"go/ast"
	"go/constant"
	"go/parser"
	"go/token"
	"go/types"
	"math/big"
	"os"
	"strconv"
	"strings"

	"golang.org/x/tools/go/ssa"
)

type bigInt = big.Int

type Clause struct {
	Src  string
	Expr ast.Expr
	File string
	Line int
	View string // proof view this clause belongs to ("" = every view)
	N    int    // ordinal among the clauses of its kind in the whole contract (1-based), stable across views
}

type LoopClause struct {
	Ord  int
	Kind string // invariant | decreases
	Src  string
	Expr ast.Expr
	View string
	N    int // ordinal among the clauses of this kind of this loop in the whole contract (1-based)
}

type CallClause struct {
	Callee string
	Ord    int
	Kind   string // assert | assume | ghost
	After  bool
	Ghost  string
	Src    string
	Expr   ast.Expr
}

type Contract struct {
	Pkg       string // import path
	Func      string // "(*T).m", "T.m" or "f"
	Requires  []*Clause
	Ensures   []*Clause
	Modifies  []*Clause
	Loops     []*LoopClause
	AtCalls   []*CallClause
	Inline    bool
	Trusted   bool // body not verified (assume-only)
	Allocates bool
	Reads     string
	File      string
	Line      int
	usedLoops map[int]bool
	TimeoutS  int // "timeout N": solver time limit in seconds for this function's obligations (a limit, not a cost)
	curView   string   // while parsing: the view that following ensures/loop clauses belong to
	Views     []string // the proof views declared by "view <name>" lines, in order
	Notes     []string
	Shared    bool
	Allows    map[string]string
	Assumes   []*Clause
	RecoversFirst bool
}

type GhostDecl struct {
	Name string
	Sort string
	Init string
}

type LemmaDecl struct {
	Name string
	Src  string
	Expr ast.Expr
	Pkg  string
	File string
	Line int
}

// AtomicInv: invariant of the values held by an atomic pointer field shared between goroutines:
// checked at every Store/CompareAndSwap, assumed at every Load.
type AtomicInv struct {
	Key  string // "Type.field"
	Var  string
	Src  string
	Expr ast.Expr
	Pkg  string
}

// FieldConstraint: a reflexive, transitive two-state invariant of a heap field of pre-existing objects
// ("mapping only ever changes to nil", "f never changes"). Checked at every store to the field in a
// function under contract; assumed whenever the heap is havocked wholesale.
type FieldConstraint struct {
	Key  string // "Type.field"
	Src  string
	Expr ast.Expr
	Pkg  string
	heapKey string
	ft   types.Type
}

// Predicate: a named contract formula (macro), evaluated in the state of its use.
type Predicate struct {
	Name   string
	Params []string
	Src    string
	Expr   ast.Expr
	Pkg    string
}

type ConstPin struct {
	Pkg, Name, Lit string
	File        string
	Line        int
}

type ContractFile struct {
	Pkg       string
	Contracts []*Contract
	Ghosts    []*GhostDecl
	Lemmas    []*LemmaDecl
	Pins      []*ConstPin
	AtomicInvs []*AtomicInv
	FieldCons  []*FieldConstraint
	Predicates []*Predicate
	Recursive map[string]bool
	Pure      map[string]bool
}

var clauseKeywords = map[string]bool{"recovers-first": true, "assumes": true, "allows": true, "requires": true, "ensures": true, "modifies": true, "loop": true, "at": true, "inline": true,
	"trusted": true, "decreases": true, "allocates": true, "note": true, "shared": true, "view": true, "timeout": true}

func parseContractFile(path, pkgPath string) (*ContractFile, error) {
	data, err := os.ReadFile(path)
	if err != nil {
		return nil, err
	}
	return parseContractText(string(data), path, pkgPath)
}

func parseContractText(text, path, pkgPath string) (*ContractFile, error) {
	cf := &ContractFile{Pkg: pkgPath, Recursive: map[string]bool{}, Pure: map[string]bool{}}
	var cur *Contract
	type pend struct {
		kw   string
		text string
		line int
	}
	var pd *pend
	var perr error
	flush := func() {
		if pd == nil {
			return
		}
		x := *pd
		pd = nil
		if err := cf.addClause(cur, x.kw, strings.TrimSpace(x.text), path, x.line); err != nil && perr == nil {
			perr = fmt.Errorf("%s:%d: %v", path, x.line, err)
		}
	}
	for i, raw := range strings.Split(text, "\n") {
		line := strings.TrimSpace(raw)
		if !strings.HasPrefix(line, "//@") {
			continue
		}
		body := strings.TrimSpace(line[3:])
		if body == "" {
			continue
		}
		if j := strings.Index(body, " //"); j >= 0 { // trailing comment
			body = strings.TrimSpace(body[:j])
		}
		fields := strings.Fields(body)
		kw := fields[0]
		rest := strings.TrimSpace(body[len(kw):])
		switch kw {
		case "contract":
			flush()
			cur = &Contract{Pkg: pkgPath, Func: normFuncName(rest), File: path, Line: i + 1, usedLoops: map[int]bool{}}
			cf.Contracts = append(cf.Contracts, cur)
		case "ghost":
			flush()
			cur = nil
			f := strings.Fields(rest)
			if len(f) < 2 {
				return nil, fmt.Errorf("%s:%d: bad ghost declaration", path, i+1)
			}
			g := &GhostDecl{Name: f[0], Sort: f[1]}
			if k := strings.Index(rest, "="); k >= 0 {
				g.Init = strings.TrimSpace(rest[k+1:])
			}
			cf.Ghosts = append(cf.Ghosts, g)
		case "lemma":
			flush()
			cur = nil
			k := strings.Index(rest, ":")
			if k < 0 {
				return nil, fmt.Errorf("%s:%d: bad lemma", path, i+1)
			}
			pd = &pend{"lemma:" + strings.TrimSpace(rest[:k]), rest[k+1:], i + 1}
		case "const":
			flush()
			cur = nil
			k := strings.Index(rest, "==")
			if k < 0 {
				return nil, fmt.Errorf("%s:%d: bad const pin", path, i+1)
			}
			cf.Pins = append(cf.Pins, &ConstPin{Pkg: pkgPath, Name: strings.TrimSpace(rest[:k]), Lit: strings.TrimSpace(rest[k+2:]), File: path, Line: i + 1})
		case "callers":
			// callers <func>: f, g   (structural: the complete list of functions with a static call of <func>;
			// a use of <func> as a value is listed as "(value)")
			flush()
			cur = nil
			k := strings.Index(rest, ":")
			if k < 0 {
				return nil, fmt.Errorf("%s:%d: bad callers clause", path, i+1)
			}
			var names []string
			for _, n := range strings.Split(rest[k+1:], ",") {
				if n = strings.TrimSpace(n); n != "" {
					names = append(names, n)
				}
			}
			sort.Strings(names)
			cf.Pins = append(cf.Pins, &ConstPin{Pkg: pkgPath, Name: "callers:" + strings.TrimSpace(rest[:k]), Lit: strings.Join(names, ","), File: path, Line: i + 1})
		case "recursive":
			flush()
			cf.Recursive[rest] = true
		case "uninterpreted":
			// uninterpreted <func>: calls are uninterpreted applications (meaning given only by contracts that mention it)
			flush()
			cf.Recursive[rest] = true
			cf.Pure[rest] = true
		case "predicate":
			// predicate name(p1 T1, p2 T2): <expr>   (a named formula usable in contracts; may use quantifiers)
			flush()
			cur = nil
			k := strings.Index(rest, "):")
			if k < 0 {
				return nil, fmt.Errorf("%s:%d: bad predicate", path, i+1)
			}
			pd = &pend{"pred:" + strings.TrimSpace(rest[:k+1]), rest[k+2:], i + 1}
		case "field-constraint":
			// field-constraint <Type>.<field>: <expr over new, old>   (two-state invariant of a heap field)
			flush()
			cur = nil
			k := strings.Index(rest, ":")
			if k < 0 {
				return nil, fmt.Errorf("%s:%d: bad field-constraint", path, i+1)
			}
			pd = &pend{"fieldc:" + strings.TrimSpace(rest[:k]), rest[k+1:], i + 1}
		case "atomic-invariant":
			// atomic-invariant <Type>.<field> <var>: <expr>
			flush()
			cur = nil
			k := strings.Index(rest, ":")
			if k < 0 {
				return nil, fmt.Errorf("%s:%d: bad atomic-invariant", path, i+1)
			}
			f := strings.Fields(rest[:k])
			if len(f) != 2 {
				return nil, fmt.Errorf("%s:%d: bad atomic-invariant header", path, i+1)
			}
			pd = &pend{"atomicinv:" + f[0] + ":" + f[1], rest[k+1:], i + 1}
		default:
			if clauseKeywords[kw] {
				flush()
				if cur == nil {
					return nil, fmt.Errorf("%s:%d: clause outside contract", path, i+1)
				}
				pd = &pend{kw, rest, i + 1}
			} else if pd != nil {
				pd.text += " " + body
			} else {
				return nil, fmt.Errorf("%s:%d: unknown directive %q", path, i+1, kw)
			}
		}
	}
	flush()
	return cf, perr
}

func normFuncName(s string) string {
	s = strings.TrimSpace(s)
	if k := strings.Index(s, ")("); k >= 0 { // "(*T).m(args)": cut parameter list
		_ = k
	}
	// cut a parameter list if present: find the first '(' that follows an identifier char
	depth := 0
	for i := 0; i < len(s); i++ {
		switch s[i] {
		case '(':
			if i > 0 && (isIdentChar(s[i-1])) && depth == 0 {
				return strings.TrimSpace(s[:i])
			}
			depth++
		case ')':
			depth--
		}
	}
	return s
}

func isIdentChar(c byte) bool {
	return c == '_' || c >= 'a' && c <= 'z' || c >= 'A' && c <= 'Z' || c >= '0' && c <= '9'
}

func (cf *ContractFile) addClause(c *Contract, kw, text, path string, line int) error {
	mk := func(src string) (*Clause, error) {
		e, err := parseSpecExpr(src)
		if err != nil {
			return nil, fmt.Errorf("cannot parse %q: %v", src, err)
		}
		return &Clause{Src: src, Expr: e, File: path, Line: line}, nil
	}
	if strings.HasPrefix(kw, "pred:") {
		hdr := kw[5:]
		op := strings.Index(hdr, "(")
		name := strings.TrimSpace(hdr[:op])
		var params []string
		for _, prm := range splitTop(hdr[op+1:len(hdr)-1], ',') {
			f := strings.Fields(strings.TrimSpace(prm))
			if len(f) >= 1 {
				params = append(params, f[0])
			}
		}
		e, err := parseSpecExpr(text)
		if err != nil {
			return fmt.Errorf("cannot parse predicate %q: %v", text, err)
		}
		cf.Predicates = append(cf.Predicates, &Predicate{Name: name, Params: params, Src: text, Expr: e, Pkg: cf.Pkg})
		return nil
	}
	if strings.HasPrefix(kw, "fieldc:") {
		e, err := parseSpecExpr(text)
		if err != nil {
			return fmt.Errorf("cannot parse field-constraint %q: %v", text, err)
		}
		cf.FieldCons = append(cf.FieldCons, &FieldConstraint{Key: kw[7:], Src: text, Expr: e, Pkg: cf.Pkg})
		return nil
	}
	if strings.HasPrefix(kw, "atomicinv:") {
		parts := strings.SplitN(kw, ":", 3)
		e, err := parseSpecExpr(text)
		if err != nil {
			return fmt.Errorf("cannot parse atomic-invariant %q: %v", text, err)
		}
		cf.AtomicInvs = append(cf.AtomicInvs, &AtomicInv{Key: parts[1], Var: parts[2], Src: text, Expr: e, Pkg: cf.Pkg})
		return nil
	}
	if strings.HasPrefix(kw, "lemma:") {
		e, err := parseSpecExpr(text)
		if err != nil {
			return fmt.Errorf("cannot parse lemma %q: %v", text, err)
		}
		cf.Lemmas = append(cf.Lemmas, &LemmaDecl{Name: kw[6:], Src: text, Expr: e, Pkg: cf.Pkg, File: path, Line: line})
		return nil
	}
	switch kw {
	case "requires":
		cl, err := mk(text)
		if err != nil {
			return err
		}
		c.Requires = append(c.Requires, cl)
	case "ensures":
		cl, err := mk(text)
		if err != nil {
			return err
		}
		cl.View, cl.N = c.curView, len(c.Ensures)+1
		c.Ensures = append(c.Ensures, cl)
	case "view":
		// view <name>: the ensures and loop clauses that follow (up to the next "view" line) are proved in a
		// separate pass over the function, together with the clauses outside any view ("view all" ends it).
		// Independent groups of invariants then do not load each other's proofs.
		name := strings.TrimSpace(text)
		if name == "all" || name == "" {
			c.curView = ""
			return nil
		}
		// "view a, b": the clauses that follow belong to both views
		c.curView = name
		for _, one := range strings.Split(name, ",") {
			one = strings.TrimSpace(one)
			seen := false
			for _, v := range c.Views {
				if v == one {
					seen = true
				}
			}
			if !seen && one != "" {
				c.Views = append(c.Views, one)
			}
		}
	case "assumes":
		// a postcondition that callers may use but that is not checked against the body (listed as an assumption)
		cl, err := mk(text)
		if err != nil {
			return err
		}
		c.Assumes = append(c.Assumes, cl)
	case "modifies":
		for _, part := range splitTop(text, ',') {
			part = strings.TrimSpace(part)
			if part == "" || part == "nothing" {
				continue
			}
			cl, err := mk(part)
			if err != nil {
				return err
			}
			c.Modifies = append(c.Modifies, cl)
		}
	case "allows":
		// allows panic#k: <reason>  -- a documented API-misuse panic that is not an obligation
		k := strings.Index(text, ":")
		site, reason := text, ""
		if k >= 0 {
			site, reason = strings.TrimSpace(text[:k]), strings.TrimSpace(text[k+1:])
		}
		if c.Allows == nil {
			c.Allows = map[string]string{}
		}
		c.Allows[site] = reason
	case "timeout":
		n, err := strconv.Atoi(strings.TrimSpace(text))
		if err != nil || n <= 0 {
			return fmt.Errorf("bad timeout")
		}
		c.TimeoutS = n
	case "recovers-first":
		c.RecoversFirst = true
	case "inline":
		c.Inline = true
	case "trusted":
		c.Trusted = true
		if text != "" {
			c.Notes = append(c.Notes, text)
		}
	case "shared":
		c.Shared = true
	case "allocates":
		c.Allocates = true
	case "note":
		c.Notes = append(c.Notes, text)
	case "decreases":
		return fmt.Errorf("decreases on recursive functions is not supported")
	case "loop":
		// loop <n>: invariant <expr> | decreases <expr>
		k := strings.Index(text, ":")
		if k < 0 {
			return fmt.Errorf("bad loop clause")
		}
		n, err := strconv.Atoi(strings.TrimSpace(text[:k]))
		if err != nil {
			return fmt.Errorf("bad loop ordinal")
		}
		rest := strings.TrimSpace(text[k+1:])
		f := strings.Fields(rest)
		if len(f) == 0 || (f[0] != "invariant" && f[0] != "decreases") {
			return fmt.Errorf("bad loop clause kind")
		}
		src := strings.TrimSpace(rest[len(f[0]):])
		e, err := parseSpecExpr(src)
		if err != nil {
			return fmt.Errorf("cannot parse %q: %v", src, err)
		}
		cnt := 1
		for _, lc := range c.Loops {
			if lc.Ord == n && lc.Kind == f[0] {
				cnt++
			}
		}
		c.Loops = append(c.Loops, &LoopClause{Ord: n, Kind: f[0], Src: src, Expr: e, View: c.curView, N: cnt})
	case "at":
		// at loop <n> end: assert <expr>   (checked at the end of every iteration, before the invariants)
		if strings.HasPrefix(text, "loop ") {
			k := strings.Index(text, ":")
			if k < 0 {
				return fmt.Errorf("bad at loop clause")
			}
			f := strings.Fields(text[5:k])
			if len(f) != 2 || (f[1] != "end" && f[1] != "entry") {
				return fmt.Errorf("bad at loop clause (want: at loop <n> end|entry: assert <expr>)")
			}
			n, err := strconv.Atoi(f[0])
			if err != nil {
				return fmt.Errorf("bad loop ordinal")
			}
			rest := strings.TrimSpace(text[k+1:])
			if !strings.HasPrefix(rest, "assert ") {
				return fmt.Errorf("at loop end supports assert only")
			}
			src := strings.TrimSpace(rest[7:])
			e, err := parseSpecExpr(src)
			if err != nil {
				return fmt.Errorf("cannot parse %q: %v", src, err)
			}
			kind := "endassert"
			if f[1] == "entry" {
				kind = "entryassert"
			}
			c.Loops = append(c.Loops, &LoopClause{Ord: n, Kind: kind, Src: src, Expr: e})
			return nil
		}
		// at call <callee>#<k>: assert <expr> | ghost $g = <expr> | assume <expr>
		if !strings.HasPrefix(text, "call ") {
			return fmt.Errorf("bad at clause")
		}
		text = strings.TrimSpace(text[5:])
		k := strings.Index(text, ":")
		if k < 0 {
			return fmt.Errorf("bad at clause")
		}
		site := strings.TrimSpace(text[:k])
		rest := strings.TrimSpace(text[k+1:])
		ord := 1
		if h := strings.Index(site, "#"); h >= 0 {
			ord, _ = strconv.Atoi(site[h+1:])
			site = site[:h]
		}
		f := strings.Fields(rest)
		cc := &CallClause{Callee: site, Ord: ord, Kind: f[0]}
		src := strings.TrimSpace(rest[len(f[0]):])
		if f[0] == "after" {
			cc.After = true
			f = f[1:]
			cc.Kind = f[0]
			src = strings.TrimSpace(src[len(f[0]):])
		}
		if f[0] == "ghost" {
			eq := strings.Index(src, "=")
			cc.Ghost = strings.TrimPrefix(strings.TrimSpace(src[:eq]), "$")
			src = strings.TrimSpace(src[eq+1:])
		}
		e, err := parseSpecExpr(src)
		if err != nil {
			return fmt.Errorf("cannot parse %q: %v", src, err)
		}
		cc.Src, cc.Expr = src, e
		c.AtCalls = append(c.AtCalls, cc)
	}
	return nil
}

// ---- expression syntax: Go expressions + ==>, <==>, forall/exists x T :: e, $ghost

func splitTop(s string, sep byte) []string {
	var out []string
	depth := 0
	inStr := byte(0)
	start := 0
	for i := 0; i < len(s); i++ {
		c := s[i]
		if inStr != 0 {
			if c == '\\' {
				i++
			} else if c == inStr {
				inStr = 0
			}
			continue
		}
		switch c {
		case '"', '\'', '`':
			inStr = c
		case '(', '[', '{':
			depth++
		case ')', ']', '}':
			depth--
		default:
			if c == sep && depth == 0 {
				out = append(out, s[start:i])
				start = i + 1
			}
		}
	}
	out = append(out, s[start:])
	return out
}

// findTop finds the first top-level occurrence of op in s (outside parens and strings), or -1.
func findTop(s, op string) int {
	depth := 0
	inStr := byte(0)
	for i := 0; i < len(s); i++ {
		c := s[i]
		if inStr != 0 {
			if c == '\\' {
				i++
			} else if c == inStr {
				inStr = 0
			}
			continue
		}
		switch c {
		case '"', '\'', '`':
			inStr = c
		case '(', '[', '{':
			depth++
		case ')', ']', '}':
			depth--
		}
		if depth == 0 && strings.HasPrefix(s[i:], op) {
			// do not confuse "==>" inside "<==>"
			if op == "==>" && i > 0 && s[i-1] == '<' {
				continue
			}
			return i
		}
	}
	return -1
}

// findTopKeyword finds a top-level quantifier keyword that is not at the start of s.
func findTopQuant(s string) int {
	depth := 0
	inStr := byte(0)
	for i := 0; i < len(s); i++ {
		c := s[i]
		if inStr != 0 {
			if c == '\\' {
				i++
			} else if c == inStr {
				inStr = 0
			}
			continue
		}
		switch c {
		case '"', '\'', '`':
			inStr = c
		case '(', '[', '{':
			depth++
		case ')', ']', '}':
			depth--
		}
		if i > 0 && depth == 0 && !isIdentChar(s[i-1]) && (strings.HasPrefix(s[i:], "forall ") || strings.HasPrefix(s[i:], "exists ")) {
			return i
		}
	}
	return -1
}

var rwDepth int

func rewriteSpec(s string) string {
	rwDepth++
	defer func() { rwDepth-- }()
	if rwDepth > 200 {
		panic("contract: expression nesting too deep while rewriting: " + s)
	}
	s = strings.TrimSpace(s)
	// a quantifier in the middle of an expression extends to the end of its level
	if p := findTopQuant(s); p > 0 {
		s = s[:p] + "(" + s[p:] + ")"
	}
	if strings.HasPrefix(s, "forall ") || strings.HasPrefix(s, "exists ") {
		q := s[:6]
		k := findTop(s, "::")
		if k > 0 {
			binders := strings.TrimSpace(s[7:k])
			body := rewriteSpec(s[k+2:])
			var params []string
			for _, b := range splitTop(binders, ',') {
				params = append(params, strings.TrimSpace(b))
			}
			return fmt.Sprintf("__%s(func(%s) bool { return %s })", q, strings.Join(params, ", "), body)
		}
	}
	if k := findTop(s, "<==>"); k >= 0 {
		return "__iff(" + rewriteSpec(s[:k]) + ", " + rewriteSpec(s[k+4:]) + ")"
	}
	if k := findTop(s, "==>"); k >= 0 {
		return "__implies(" + rewriteSpec(s[:k]) + ", " + rewriteSpec(s[k+3:]) + ")"
	}
	// recurse into parenthesised groups
	var sb strings.Builder
	inStr := byte(0)
	for i := 0; i < len(s); i++ {
		c := s[i]
		if inStr != 0 {
			sb.WriteByte(c)
			if c == '\\' && i+1 < len(s) {
				i++
				sb.WriteByte(s[i])
			} else if c == inStr {
				inStr = 0
			}
			continue
		}
		switch c {
		case '"', '\'', '`':
			inStr = c
			sb.WriteByte(c)
		case '(', '[':
			// find matching close
			closeC := byte(')')
			if c == '[' {
				closeC = ']'
			}
			depth := 1
			j := i + 1
			is2 := byte(0)
			for ; j < len(s) && depth > 0; j++ {
				d := s[j]
				if is2 != 0 {
					if d == '\\' {
						j++
					} else if d == is2 {
						is2 = 0
					}
					continue
				}
				switch d {
				case '"', '\'', '`':
					is2 = d
				case '(', '[', '{':
					depth++
				case ')', ']', '}':
					depth--
				}
			}
			inner := s[i+1 : j-1]
			sb.WriteByte(c)
			isCall := false
			for k := i - 1; k >= 0; k-- {
				if s[k] == ' ' {
					continue
				}
				isCall = isIdentChar(s[k]) || s[k] == ')' || s[k] == ']'
				break
			}
			if c == '(' && !isCall {
				sb.WriteString(rewriteSpec(inner))
			} else if c == '(' {
				parts := splitTop(inner, ',')
				for pi, part := range parts {
					if pi > 0 {
						sb.WriteString(", ")
					}
					sb.WriteString(rewriteSpec(part))
				}
			} else {
				parts := splitTop(inner, ':')
				for pi, part := range parts {
					if pi > 0 {
						sb.WriteString(":")
					}
					if strings.TrimSpace(part) != "" {
						sb.WriteString(rewriteSpec(part))
					}
				}
			}
			sb.WriteByte(closeC)
			i = j - 1
		case '$':
			sb.WriteString("ghost__")
		default:
			sb.WriteByte(c)
		}
	}
	return sb.String()
}

func parseSpecExpr(src string) (ast.Expr, error) {
	rw := rewriteSpec(src)
	e, err := parser.ParseExpr(rw)
	if err != nil {
		return nil, fmt.Errorf("%v (rewritten: %s)", err, rw)
	}
	return e, nil
}

// ---- evaluation

type constV struct{ C constant.Value }

type typeV struct{ T types.Type }
type pkgV struct{ P *types.Package }
type funcRefV struct {
	Obj  *types.Func
	Recv Value
	RecvT types.Type
}

type cvar struct {
	V Value
	T types.Type
}

type CEnv struct {
	p      *Proof
	pkg    *types.Package
	fn     *ssa.Function
	vars   map[string]cvar
	st     *State
	old    *State
	locals func(name string, st *State) (Value, types.Type, bool)
	where  string
	qdepth int
	visitedOf func(m MapV, st *State) (*Term, bool)
	loopEntry *State // in a loop's own clauses: the state in which the loop was entered (loopentry(e))
	iterEntry *State // at the end of an iteration: the state at its start (iterentry(e))
}

func (e *CEnv) fail(format string, a ...interface{}) {
	panic("contract: " + e.where + ": " + fmt.Sprintf(format, a...))
}

func (e *CEnv) with(name string, v Value, t types.Type) *CEnv {
	n := *e
	n.vars = make(map[string]cvar, len(e.vars)+1)
	for k, x := range e.vars {
		n.vars[k] = x
	}
	n.vars[name] = cvar{v, t}
	return &n
}

func (e *CEnv) evalBool(x ast.Expr, src string) *Term {
	e.where = src
	v, _ := e.eval(x)
	s, ok := v.(Scalar)
	if !ok || s.T.Sort != SBool {
		e.fail("expression is not boolean")
	}
	return s.T
}

func constToValue(c constant.Value, t types.Type) Value {
	if isWide(t) {
		ci := constant.ToInt(c)
		if v, ok := constant.Val(ci).(*big.Int); ok {
			return Scalar{IntConst(v)}
		}
		iv, _ := constant.Int64Val(ci)
		return Scalar{IntConst(big.NewInt(iv))}
	}
	if w, _, ok := intInfo(t); ok {
		ci := constant.ToInt(c)
		if ci.Kind() != constant.Int {
			panic("contract: constant " + c.String() + " is not an integer")
		}
		if v, ok := constant.Val(ci).(*big.Int); ok {
			return Scalar{BVConst(v, w)}
		}
		iv, _ := constant.Int64Val(ci)
		return Scalar{BVInt(iv, w)}
	}
	switch {
	case isBool(t):
		if constant.BoolVal(c) {
			return Scalar{True()}
		}
		return Scalar{False()}
	case isString(t):
		return Scalar{strLit(constant.StringVal(c))}
	case isFloat(t):
		f, _ := constant.Float64Val(c)
		return Scalar{floatConst(f)}
	}
	panic("contract: cannot convert constant to " + typeKey(t))
}

func defaultConstType(c constant.Value) types.Type {
	switch c.Kind() {
	case constant.Bool:
		return types.Typ[types.Bool]
	case constant.String:
		return types.Typ[types.String]
	case constant.Float:
		return types.Typ[types.Float64]
	}
	return types.Typ[types.Int]
}

// materialize turns constV into a Value of type t (or default type).
func materialize(v Value, t types.Type) (Value, types.Type) {
	if c, ok := v.(constV); ok {
		if t == nil {
			t = defaultConstType(c.C)
		}
		return constToValue(c.C, t), t
	}
	return v, t
}

// wideType is the ghost 128-bit integer type.
var wideType = types.NewNamed(types.NewTypeName(token.NoPos, nil, "wide", nil), types.Typ[types.Uint64], nil)

func isWide(t types.Type) bool {
	n, ok := t.(*types.Named)
	return ok && n == wideType
}

func (e *CEnv) eval(x ast.Expr) (Value, types.Type) {
	p := e.p
	switch n := x.(type) {
	case *ast.ParenExpr:
		return e.eval(n.X)
	case *ast.BasicLit:
		c := constant.MakeFromLiteral(n.Value, n.Kind, 0)
		return constV{c}, nil
	case *ast.Ident:
		return e.evalIdent(n.Name)
	case *ast.UnaryExpr:
		v, t := e.eval(n.X)
		if c, ok := v.(constV); ok {
			return constV{constant.UnaryOp(n.Op, c.C, 0)}, nil
		}
		switch n.Op {
		case token.NOT:
			return Scalar{Not(v.(Scalar).T)}, t
		case token.SUB:
			if v.(Scalar).T.Sort == SFloat {
				return Scalar{B.mk("fp.neg", SFloat, v.(Scalar).T)}, t
			}
			return Scalar{BVNeg(v.(Scalar).T)}, t
		case token.XOR:
			return Scalar{BVNot(v.(Scalar).T)}, t
		case token.ADD:
			return v, t
		}
		e.fail("unsupported unary %s", n.Op)
	case *ast.TypeAssertExpr:
		// x.(T) in a specification: the dynamic value of x read at type T (concrete
		// types only; no obligation — where the dynamic type is another one the value
		// is unconstrained).
		xv, _ := e.eval(n.X)
		iv, ok := xv.(IfaceV)
		if !ok || n.Type == nil {
			e.fail("type assertion needs an interface value and a type")
		}
		tv, _ := e.eval(n.Type)
		tt, ok := tv.(typeV)
		if !ok {
			e.fail("type assertion needs a type")
		}
		if _, isIface := tt.T.Underlying().(*types.Interface); isIface {
			e.fail("type assertion to an interface type is not supported in contracts")
		}
		if iv.Dyn != nil && iv.DynT != nil && types.Identical(iv.DynT, tt.T) {
			return iv.Dyn, tt.T
		}
		at := tt.T
		res := build(at, func(l leafSpec) *Term {
			fn := B.DeclareFun("payload."+typeKey(at)+l.Path, []string{SRef}, l.Sort)
			return B.App(fn, l.Sort, iv.Ref)
		})
		return res, at
	case *ast.StarExpr:
		v, t := e.eval(n.X)
		if tv, ok := v.(typeV); ok {
			return typeV{types.NewPointer(tv.T)}, nil
		}
		pt, ok := t.Underlying().(*types.Pointer)
		if !ok {
			e.fail("dereference of non-pointer")
		}
		return e.deref(v, pt.Elem()), pt.Elem()
	case *ast.BinaryExpr:
		return e.evalBinary(n)
	case *ast.SelectorExpr:
		return e.evalSelector(n)
	case *ast.IndexExpr:
		return e.evalIndex(n)
	case *ast.SliceExpr:
		return e.evalSlice(n)
	case *ast.CallExpr:
		return e.evalCall(n)
	case *ast.CompositeLit:
		tv, _ := e.eval(n.Type)
		tt, ok := tv.(typeV)
		if !ok {
			e.fail("composite literal needs a type")
		}
		st, ok := tt.T.Underlying().(*types.Struct)
		if !ok {
			e.fail("only struct composite literals are supported in contracts")
		}
		sv := zeroValue(tt.T).(StructV)
		for i, el := range n.Elts {
			idx := i
			var ve ast.Expr = el
			if kv, ok := el.(*ast.KeyValueExpr); ok {
				name := kv.Key.(*ast.Ident).Name
				idx = -1
				for k := 0; k < st.NumFields(); k++ {
					if st.Field(k).Name() == name {
						idx = k
					}
				}
				if idx < 0 {
					e.fail("no field %s", name)
				}
				ve = kv.Value
			}
			v, t := e.eval(ve)
			v, _ = materialize(v, st.Field(idx).Type())
			_ = t
			sv.F[idx] = v
		}
		return sv, tt.T
	case *ast.MapType:
		kv, _ := e.eval(n.Key)
		vv, _ := e.eval(n.Value)
		kt, ok1 := kv.(typeV)
		vt, ok2 := vv.(typeV)
		if !ok1 || !ok2 {
			e.fail("map type needs two types")
		}
		return typeV{types.NewMap(kt.T, vt.T)}, nil
	case *ast.ArrayType:
		if n.Len == nil {
			ev, _ := e.eval(n.Elt)
			if et, ok := ev.(typeV); ok {
				return typeV{types.NewSlice(et.T)}, nil
			}
		}
	}
	_ = p
	e.fail("unsupported expression %T", x)
	return nil, nil
}

func (e *CEnv) deref(v Value, elem types.Type) Value {
	pv, ok := v.(PtrV)
	if !ok {
		e.fail("dereference of %T", v)
	}
	fr := &Frame{p: e.p, fn: e.fn}
	// no nil obligation inside contracts: a nil dereference in a contract yields an arbitrary value
	pv.Null = False()
	return fr.load(nil, e.st, pv, elem)
}

func (e *CEnv) evalIdent(name string) (Value, types.Type) {
	switch name {
	case "true":
		return Scalar{True()}, types.Typ[types.Bool]
	case "false":
		return Scalar{False()}, types.Typ[types.Bool]
	case "nil":
		return PtrV{Kind: KObj, Ref: BVInt(0, 64), Null: True()}, types.Typ[types.UntypedNil]
	}
	if strings.HasPrefix(name, "ghost__") {
		g := name[7:]
		t, ok := e.st.Ghost[g]
		if !ok {
			e.fail("unknown ghost variable $%s", g)
		}
		return Scalar{t}, e.p.eng.ghostType(g)
	}
	if cv, ok := e.vars[name]; ok {
		return cv.V, cv.T
	}
	if e.locals != nil {
		if v, t, ok := e.locals(name, e.st); ok {
			return v, t
		}
	}
	if e.pkg != nil {
		if obj := e.pkg.Scope().Lookup(name); obj != nil {
			return e.objValue(obj)
		}
	}
	if obj := types.Universe.Lookup(name); obj != nil {
		if tn, ok := obj.(*types.TypeName); ok {
			return typeV{tn.Type()}, nil
		}
	}
	if e.pkg != nil {
		// an import alias used by the package's own files wins over the imported package's name
		if pp := e.p.eng.pkgs[e.pkg.Path()]; pp != nil {
			for _, f := range pp.Syntax {
				for _, is := range f.Imports {
					if is.Name == nil || is.Name.Name != name {
						continue
					}
					path := strings.Trim(is.Path.Value, "\"")
					for _, imp := range e.pkg.Imports() {
						if imp.Path() == path {
							return pkgV{imp}, nil
						}
					}
				}
			}
		}
		for _, imp := range e.pkg.Imports() {
			if imp.Name() == name {
				return pkgV{imp}, nil
			}
		}
	}
	if name == "wide" {
		return typeV{wideType}, nil
	}
	e.fail("undefined identifier %s", name)
	return nil, nil
}

func (e *CEnv) objValue(obj types.Object) (Value, types.Type) {
	switch o := obj.(type) {
	case *types.Const:
		if b, ok := o.Type().Underlying().(*types.Basic); ok && b.Info()&types.IsUntyped != 0 {
			return constV{o.Val()}, nil
		}
		return constToValue(o.Val(), o.Type()), o.Type()
	case *types.TypeName:
		return typeV{o.Type()}, nil
	case *types.Func:
		return funcRefV{Obj: o}, o.Type()
	case *types.Var:
		// package-level variable
		key := "G:" + o.Pkg().Name() + "." + o.Name()
		t := o.Type()
		v := build(t, func(l leafSpec) *Term { return e.p.heapCell(e.st, key+l.Path, l.Sort) })
		return v, t
	case *types.PkgName:
		return pkgV{o.Imported()}, nil
	}
	e.fail("unsupported object %s", obj.Name())
	return nil, nil
}

func (e *CEnv) evalBinary(n *ast.BinaryExpr) (Value, types.Type) {
	a, ta := e.eval(n.X)
	b, tb := e.eval(n.Y)
	ca, aconst := a.(constV)
	cb, bconst := b.(constV)
	boolT := types.Typ[types.Bool]
	isCmp := false
	switch n.Op {
	case token.EQL, token.NEQ, token.LSS, token.LEQ, token.GTR, token.GEQ:
		isCmp = true
	}
	if aconst && bconst {
		if isCmp {
			return constV{constant.MakeBool(constant.Compare(ca.C, n.Op, cb.C))}, nil
		}
		if n.Op == token.SHL || n.Op == token.SHR {
			s, _ := constant.Uint64Val(constant.ToInt(cb.C))
			return constV{constant.Shift(constant.ToInt(ca.C), n.Op, uint(s))}, nil
		}
		if n.Op == token.LAND || n.Op == token.LOR {
			return constV{constant.BinaryOp(ca.C, n.Op, cb.C)}, nil
		}
		op := n.Op
		if op == token.QUO && ca.C.Kind() == constant.Int && cb.C.Kind() == constant.Int {
			op = token.QUO_ASSIGN // integer division
		}
		return constV{constant.BinaryOp(ca.C, op, cb.C)}, nil
	}
	if n.Op == token.SHL || n.Op == token.SHR {
		a, ta = materialize(a, ta)
		if bconst {
			b, tb = materialize(b, types.Typ[types.Uint64])
		}
		return e.p.binopVals(nil, nil, e.st, n.Op, a, b, ta, tb), ta
	}
	if aconst {
		a, ta = materialize(a, constTarget(tb))
	}
	if bconst {
		b, tb = materialize(b, constTarget(ta))
	}
	// nil comparisons
	if ta != nil && tb != nil {
		if bb, ok := tb.Underlying().(*types.Basic); ok && bb.Kind() == types.UntypedNil {
			tb = ta
		} else if ab, ok := ta.Underlying().(*types.Basic); ok && ab.Kind() == types.UntypedNil {
			ta = tb
		}
	}
	if isWide(ta) || isWide(tb) {
		// ghost arithmetic over mathematical integers
		x, y := a.(Scalar).T, b.(Scalar).T
		if x.Sort != SInt {
			_, sg, _ := intInfo(ta)
			x = BVToInt(x, sg)
		}
		if y.Sort != SInt {
			_, sg, _ := intInfo(tb)
			y = BVToInt(y, sg)
		}
		switch n.Op {
		case token.ADD:
			return Scalar{IntAdd(x, y)}, wideType
		case token.SUB:
			return Scalar{IntSub(x, y)}, wideType
		case token.MUL:
			return Scalar{IntMul(x, y)}, wideType
		case token.EQL:
			return Scalar{Eq(x, y)}, boolT
		case token.NEQ:
			return Scalar{Neq(x, y)}, boolT
		case token.LSS:
			return Scalar{IntLt(x, y)}, boolT
		case token.LEQ:
			return Scalar{IntLe(x, y)}, boolT
		case token.GTR:
			return Scalar{IntLt(y, x)}, boolT
		case token.GEQ:
			return Scalar{IntLe(y, x)}, boolT
		}
		e.fail("unsupported wide operator %s", n.Op)
	}
	if sa, ok := a.(Scalar); ok {
		if sb, ok := b.(Scalar); ok && sa.T.Sort != sb.T.Sort {
			e.fail("operand sorts differ in %s: %s vs %s (types %v, %v)", n.Op, sa.T.Sort, sb.T.Sort, ta, tb)
		}
	}
	r := e.p.binopVals(nil, nil, e.st, n.Op, a, b, ta, tb)
	if isCmp || n.Op == token.LAND || n.Op == token.LOR {
		return r, boolT
	}
	return r, ta
}

func constTarget(t types.Type) types.Type {
	if t == nil {
		return nil
	}
	if b, ok := t.Underlying().(*types.Basic); ok && b.Kind() == types.UntypedNil {
		return nil
	}
	return t
}

func (e *CEnv) evalSelector(n *ast.SelectorExpr) (Value, types.Type) {
	v, t := e.eval(n.X)
	if pk, ok := v.(pkgV); ok {
		obj := pk.P.Scope().Lookup(n.Sel.Name)
		if obj == nil {
			e.fail("undefined %s.%s", pk.P.Name(), n.Sel.Name)
		}
		return e.objValue(obj)
	}
	if _, ok := v.(typeV); ok {
		e.fail("method expressions are not supported")
	}
	// field or method
	obj, index, _ := types.LookupFieldOrMethod(t, true, e.pkgOf(t), n.Sel.Name)
	if obj == nil {
		e.fail("no field or method %s on %s", n.Sel.Name, typeKey(t))
	}
	if f, ok := obj.(*types.Func); ok {
		return funcRefV{Obj: f, Recv: v, RecvT: t}, f.Type()
	}
	// walk the index path
	cur, ct := v, t
	for _, i := range index {
		if pt, ok := ct.Underlying().(*types.Pointer); ok {
			cur = e.deref(cur, pt.Elem())
			ct = pt.Elem()
		}
		sv, ok := cur.(StructV)
		if !ok {
			e.fail("selector on %T", cur)
		}
		u := ct.Underlying().(*types.Struct)
		cur = sv.F[i]
		ct = u.Field(i).Type()
	}
	return cur, ct
}

func (e *CEnv) pkgOf(t types.Type) *types.Package {
	for {
		switch x := t.(type) {
		case *types.Pointer:
			t = x.Elem()
			continue
		case *types.Named:
			if x.Obj().Pkg() != nil {
				return x.Obj().Pkg()
			}
		}
		return e.pkg
	}
}

func (e *CEnv) idx(x ast.Expr) *Term {
	v, t := e.eval(x)
	if _, isC := v.(constV); isC {
		v, t = materialize(v, types.Typ[types.Int])
	}
	_, signed, _ := intInfo(t)
	return to64(v.(Scalar).T, signed)
}

func (e *CEnv) evalIndex(n *ast.IndexExpr) (Value, types.Type) {
	v, t := e.eval(n.X)
	switch b := v.(type) {
	case Scalar:
		if b.T.Sort == SStr {
			return Scalar{strAt(b.T, e.idx(n.Index))}, types.Typ[types.Uint8]
		}
	case SliceV:
		i := e.idx(n.Index)
		return e.p.loadElem(e.st, b.Elem, b.Ref, BVAdd(b.Off, i)), b.Elem
	case ArrayV:
		return leafToValue(b.Elem, Select(b.A, e.idx(n.Index))), b.Elem
	case MapV:
		k, kt := e.eval(n.Index)
		k, _ = materialize(k, b.K)
		_ = kt
		has := And(Neq(b.Ref, BVInt(0, 64)), e.p.mapHas(e.st, b, k))
		return e.p.iteValue(e.st, has, e.p.mapGet(e.st, b, k), zeroValue(b.V)), b.V
	}
	e.fail("unsupported index base %T (%v)", v, t)
	return nil, nil
}

func (e *CEnv) evalSlice(n *ast.SliceExpr) (Value, types.Type) {
	v, t := e.eval(n.X)
	z := BVInt(0, 64)
	switch b := v.(type) {
	case Scalar:
		if b.T.Sort == SStr {
			lo, hi := z, strLen(b.T)
			if n.Low != nil {
				lo = e.idx(n.Low)
			}
			if n.High != nil {
				hi = e.idx(n.High)
			}
			return Scalar{e.p.strSub(True(), b.T, lo, hi)}, t
		}
	case SliceV:
		lo, hi := z, b.Len
		if n.Low != nil {
			lo = e.idx(n.Low)
		}
		if n.High != nil {
			hi = e.idx(n.High)
		}
		return SliceV{Ref: b.Ref, Off: BVAdd(b.Off, lo), Len: BVSub(hi, lo), Cap: BVSub(b.Cap, lo), Elem: b.Elem}, t
	}
	e.fail("unsupported slice base %T", v)
	return nil, nil
}

func (e *CEnv) evalCall(n *ast.CallExpr) (Value, types.Type) {
	p := e.p
	boolT := types.Typ[types.Bool]
	if id, ok := n.Fun.(*ast.Ident); ok {
		switch id.Name {
		case "__implies":
			a := e.evalBoolArg(n.Args[0])
			b := e.evalBoolArg(n.Args[1])
			return Scalar{Implies(a, b)}, boolT
		case "__iff":
			a := e.evalBoolArg(n.Args[0])
			b := e.evalBoolArg(n.Args[1])
			return Scalar{Eq(a, b)}, boolT
		case "__forall", "__exists":
			fl := n.Args[0].(*ast.FuncLit)
			ne := e
			var bound []*Term
			var guards []*Term
			for _, fld := range fl.Type.Params.List {
				tv, _ := e.eval(fld.Type)
				tt, ok := tv.(typeV)
				if !ok {
					e.fail("bad quantifier type")
				}
				for _, nm := range fld.Names {
					srt, ok := scalarSort(tt.T)
					if isWide(tt.T) {
						srt, ok = SInt, true
					}
					if !ok {
						e.fail("quantified variable %s must have a scalar type", nm.Name)
					}
					bv := B.CanonBoundVar(nm.Name, srt, e.qdepth)
					bound = append(bound, bv)
					ne = ne.with(nm.Name, Scalar{bv}, tt.T)
					if srt == SStr {
						guards = append(guards, BVSle(BVInt(0, 64), strLen(bv)))
					}
				}
			}
			ret := fl.Body.List[0].(*ast.ReturnStmt)
			ne.where = e.where
			ne.qdepth = e.qdepth + 1
			p.bvFacts = append(p.bvFacts, nil)
			body := ne.evalBoolArg(ret.Results[0])
			facts := p.bvFacts[len(p.bvFacts)-1]
			p.bvFacts = p.bvFacts[:len(p.bvFacts)-1]
			// facts that still mention an outer bound variable go to the enclosing quantifier
			var mine []*Term
			inner := map[int]bool{}
			for _, b := range bound {
				inner[b.id] = true
			}
			for _, f := range facts {
				if hasOuterBound(f, inner, map[int]bool{}) {
					if n := len(p.bvFacts); n > 0 {
						p.bvFacts[n-1] = append(p.bvFacts[n-1], f)
					}
					continue
				}
				mine = append(mine, f)
			}
			_ = mine // type-invariant facts about quantified terms are dropped (they would tie the formula to one state's allocation counter)
			if id.Name == "__forall" {
				return Scalar{Forall(bound, Implies(And(guards...), body))}, boolT
			}
			return Scalar{Exists(bound, And(append(guards, body)...))}, boolT
		case "loopentry":
			// loopentry(e): the value of e when the loop whose clause this is was entered
			if e.loopEntry == nil {
				e.fail("loopentry() is only available in a loop's own invariants and assertions")
			}
			ne := *e
			ne.st = e.loopEntry
			ne.vars = map[string]cvar{}
			for k, v := range e.vars {
				ne.vars[k] = v
			}
			return ne.eval(n.Args[0])
		case "iterentry":
			// iterentry(e): the value of e at the start of the iteration that is ending
			if e.iterEntry == nil {
				e.fail("iterentry() is only available in `at loop N end` assertions and preserved invariants")
			}
			ne := *e
			ne.st = e.iterEntry
			ne.vars = map[string]cvar{}
			for k, v := range e.vars {
				ne.vars[k] = v
			}
			return ne.eval(n.Args[0])
		case "old":
			if e.old == nil {
				e.fail("old() not available here")
			}
			ne := *e
			ne.st = e.old
			ne.vars = map[string]cvar{}
			for k, v := range e.vars {
				ne.vars[k] = v
			}
			return ne.eval(n.Args[0])
		case "len":
			v, _ := e.eval(n.Args[0])
			switch x := v.(type) {
			case Scalar:
				return Scalar{strLen(x.T)}, types.Typ[types.Int]
			case SliceV:
				return Scalar{x.Len}, types.Typ[types.Int]
			case ArrayV:
				return Scalar{BVInt(x.N, 64)}, types.Typ[types.Int]
			case constV:
				return constV{constant.MakeInt64(int64(len(constant.StringVal(x.C))))}, nil
			}
			e.fail("len of %T", v)
		case "cap":
			v, _ := e.eval(n.Args[0])
			if x, ok := v.(SliceV); ok {
				return Scalar{x.Cap}, types.Typ[types.Int]
			}
			e.fail("cap of %T", v)
		case "le32", "le64":
			v, _ := e.eval(n.Args[0])
			s, ok := v.(SliceV)
			if !ok {
				e.fail("%s needs a []byte", id.Name)
			}
			i := e.idx(n.Args[1])
			if id.Name == "le32" {
				return Scalar{p.readLE(e.st, s.Ref, BVAdd(s.Off, i), 4)}, types.Typ[types.Uint32]
			}
			return Scalar{p.readLE(e.st, s.Ref, BVAdd(s.Off, i), 8)}, types.Typ[types.Uint64]
		case "bytes":
			v, _ := e.eval(n.Args[0])
			s, ok := v.(SliceV)
			if !ok {
				e.fail("bytes needs a []byte")
			}
			i := e.idx(n.Args[1])
			ln := e.idx(n.Args[2])
			return Scalar{p.strOfBytes(e.st, SliceV{Ref: s.Ref, Off: BVAdd(s.Off, i), Len: ln, Cap: ln, Elem: s.Elem})}, types.Typ[types.String]
		}
		if pr := p.eng.predicates[id.Name]; pr != nil {
			if len(n.Args) != len(pr.Params) {
				e.fail("predicate %s needs %d arguments", pr.Name, len(pr.Params))
			}
			ne := *e
			ne.vars = map[string]cvar{}
			for k, v := range e.vars {
				ne.vars[k] = v
			}
			for i, a := range n.Args {
				v, t := e.eval(a)
				v, t = materialize(v, t)
				ne.vars[pr.Params[i]] = cvar{v, t}
			}
			if sp := p.eng.spkgs[pr.Pkg]; sp != nil {
				ne.pkg = sp.Pkg
			}
			return ne.eval(pr.Expr)
		}
		switch id.Name {
		case "unchanged":
			// unchanged(s): the backing array of slice s holds the same elements as in the pre-state
			v, _ := e.eval(n.Args[0])
			s, ok := v.(SliceV)
			if !ok || e.old == nil {
				e.fail("unchanged needs a slice and a pre-state")
			}
			var cs []*Term
			for _, l := range leavesOf(s.Elem) {
				key := elemsKey(s.Elem, l.Path)
				srt := SArr(SRef, SArr(SBV(64), l.Sort))
				cs = append(cs, Eq(Select(p.heapCell(e.st, key, srt), s.Ref), Select(p.heapCell(e.old, key, srt), s.Ref)))
			}
			return Scalar{And(cs...)}, boolT
		case "issub":
			// issub(s, base, lo, hi): s is exactly base[lo:hi] (same backing array)
			v, _ := e.eval(n.Args[0])
			bv, _ := e.eval(n.Args[1])
			s, ok1 := v.(SliceV)
			b, ok2 := bv.(SliceV)
			if !ok1 || !ok2 {
				e.fail("issub needs slices")
			}
			lo, hi := e.idx(n.Args[2]), e.idx(n.Args[3])
			return Scalar{And(Eq(s.Ref, b.Ref), Eq(s.Off, BVAdd(b.Off, lo)), Eq(s.Len, BVSub(hi, lo)))}, boolT
		case "ite":
			cnd := e.evalBoolArg(n.Args[0])
			a, ta := e.eval(n.Args[1])
			b, tb := e.eval(n.Args[2])
			if _, ok := a.(constV); ok {
				a, ta = materialize(a, tb)
			}
			if _, ok := b.(constV); ok {
				b, tb = materialize(b, ta)
			}
			return e.p.iteValue(e.st, cnd, a, b), ta
		case "same":
			// same(a, b): identical values (for floats: the same datum, unlike ==, which is false for NaN)
			a, ta := e.eval(n.Args[0])
			b, tb := e.eval(n.Args[1])
			a, ta = materialize(a, constTarget(tb))
			b, _ = materialize(b, constTarget(ta))
			return Scalar{Eq(a.(Scalar).T, b.(Scalar).T)}, boolT
		case "visited":
			// visited(m, k): key k has already been produced by the innermost range loop over map m
			mv, _ := e.eval(n.Args[0])
			m, ok := mv.(MapV)
			if !ok {
				e.fail("visited needs a map")
			}
			k, _ := e.eval(n.Args[1])
			k, _ = materialize(k, m.K)
			if e.visitedOf == nil {
				e.fail("visited() is only available in loop invariants of range-over-map loops")
			}
			vis, ok := e.visitedOf(m, e.st)
			if !ok {
				e.fail("no range loop over this map is active")
			}
			return Scalar{selN(vis, p.keyTerms(e.st, m.K, k))}, boolT
		case "in":
			k, _ := e.eval(n.Args[0])
			mv, _ := e.eval(n.Args[1])
			m, ok := mv.(MapV)
			if !ok {
				e.fail("in needs a map")
			}
			k, _ = materialize(k, m.K)
			return Scalar{And(Neq(m.Ref, BVInt(0, 64)), p.mapHas(e.st, m, k))}, boolT
		case "fresh":
			// fresh(p): pointer / slice / map allocated during the call
			v, _ := e.eval(n.Args[0])
			if e.old == nil {
				e.fail("fresh() needs a pre-state")
			}
			var r *Term
			switch x := v.(type) {
			case PtrV:
				r = x.Ref
			case SliceV:
				r = x.Ref
			case MapV:
				r = x.Ref
			default:
				e.fail("fresh of %T", v)
			}
			return Scalar{BVUge(r, e.old.HeapTop)}, boolT
		case "funcname":
			// funcname(f, "name"): the function value f runs the code of the function (or function
			// literal, "outer$1") called name in this package
			if len(n.Args) != 2 {
				e.fail("funcname(f, \"name\")")
			}
			v, _ := e.eval(n.Args[0])
			fv, ok := v.(FuncV)
			lit, ok2 := n.Args[1].(*ast.BasicLit)
			if !ok || !ok2 {
				e.fail("funcname needs a function value and a string literal")
			}
			want := strings.Trim(lit.Value, "\"")
			if fv.Fn != nil {
				if relName(fv.Fn) == want {
					return Scalar{True()}, boolT
				}
				return Scalar{False()}, boolT
			}
			if fv.Ref == nil {
				e.fail("funcname of an unknown function value")
			}
			return Scalar{Eq(funcCodeOf(fv.Ref), BVInt(int64(p.eng.pathID("fn:"+want)), 32))}, boolT
		case "isUTC":
			// isUTC(t): the time value carries the UTC location
			v, _ := e.eval(n.Args[0])
			sc, ok := v.(Scalar)
			if !ok || sc.T.Sort != STime {
				e.fail("isUTC needs a time.Time")
			}
			return Scalar{tmUTC(sc.T)}, boolT
		case "httplimit":
			// httplimit(r): the byte limit of a reader made by http.MaxBytesReader (an uninterpreted
			// function of the reader; only MaxBytesReader's assumed contract says anything about it)
			v, _ := e.eval(n.Args[0])
			iv, ok := v.(IfaceV)
			if !ok {
				e.fail("httplimit of %T", v)
			}
			B.DeclareFun("http.limit", []string{SRef}, SBV(64))
			return Scalar{B.App("http.limit", SBV(64), iv.Ref)}, types.Typ[types.Int64]
		case "allocated":
			// allocated(p): the pointer / slice / map refers to an object that exists in this state
			// (every reference stored in a well-typed heap does; stated explicitly where a quantified
			// invariant needs it to separate old objects from ones allocated later)
			v, _ := e.eval(n.Args[0])
			var r *Term
			switch x := v.(type) {
			case PtrV:
				r = x.Ref
			case SliceV:
				r = x.Ref
			case MapV:
				r = x.Ref
			default:
				e.fail("allocated of %T", v)
			}
			return Scalar{BVUlt(r, e.st.HeapTop)}, boolT
		}
	}
	fv, ft := e.eval(n.Fun)
	switch f := fv.(type) {
	case typeV:
		// conversion
		v, t := e.eval(n.Args[0])
		return e.convert(v, t, f.T), f.T
	case funcRefV:
		var args []Value
		var argTs []types.Type
		sig := f.Obj.Type().(*types.Signature)
		if f.Recv != nil {
			// adjust receiver pointer-ness
			recvT := sig.Recv().Type()
			rv := f.Recv
			if _, wantPtr := recvT.Underlying().(*types.Pointer); !wantPtr {
				if pt, isPtr := f.RecvT.Underlying().(*types.Pointer); isPtr {
					rv = e.deref(rv, pt.Elem())
				}
			}
			args = append(args, rv)
			argTs = append(argTs, recvT)
		}
		for i, a := range n.Args {
			v, t := e.eval(a)
			var pt types.Type
			if i < sig.Params().Len() {
				pt = sig.Params().At(i).Type()
			}
			if _, ok := v.(constV); ok {
				v, t = materialize(v, pt)
			}
			v = coerceNil(v, pt)
			args = append(args, v)
			argTs = append(argTs, t)
		}
		return e.callFunc(f.Obj, args, sig)
	}
	_ = ft
	e.fail("unsupported call")
	return nil, nil
}

func (e *CEnv) evalBoolArg(x ast.Expr) *Term {
	v, _ := e.eval(x)
	v, _ = materialize(v, types.Typ[types.Bool])
	s, ok := v.(Scalar)
	if !ok || s.T.Sort != SBool {
		e.fail("expected boolean")
	}
	return s.T
}

func (e *CEnv) convert(v Value, from types.Type, to types.Type) Value {
	if c, ok := v.(constV); ok {
		return constToValue(c.C, to)
	}
	if isWide(to) {
		t := v.(Scalar).T
		if t.Sort == SInt {
			return v
		}
		_, signed, _ := intInfo(from)
		return Scalar{BVToInt(t, signed)}
	}
	fw, fsigned, fok := intInfo(from)
	tw, _, tok := intInfo(to)
	_ = fw
	if isWide(from) && tok {
		return Scalar{B.mk(fmt.Sprintf("(_ int2bv %d)", tw), SBV(tw), v.(Scalar).T)}
	}
	if fok && tok {
		t := v.(Scalar).T
		if tw <= t.Width() {
			return Scalar{Extract(t, tw-1, 0)}
		}
		if fsigned {
			return Scalar{SignExt(t, tw)}
		}
		return Scalar{ZeroExt(t, tw)}
	}
	if isString(to) {
		if sv, ok := v.(SliceV); ok {
			return Scalar{e.p.strOfBytes(e.st, sv)}
		}
		return v
	}
	if fok && isFloat(to) {
		t := v.(Scalar).T
		if fsigned {
			return Scalar{B.mk("(_ to_fp 11 53)", SFloat, rne(), t)}
		}
		return Scalar{B.mk("(_ to_fp_unsigned 11 53)", SFloat, rne(), t)}
	}
	return retag(v, to)
}

// callFunc evaluates a pure function call inside a contract: spec functions and small methods are
// executed symbolically; recursive spec functions become uninterpreted applications with unfolding.
func (e *CEnv) callFunc(obj *types.Func, args []Value, sig *types.Signature) (Value, types.Type) {
	p := e.p
	var rt types.Type
	if sig.Results().Len() == 1 {
		rt = sig.Results().At(0).Type()
	} else {
		rt = sig.Results()
	}
	fn := p.eng.prog.FuncValue(obj)
	if fn == nil {
		// interface method: use the assumed contract of the interface method, if any
		if recv := sig.Recv(); recv != nil {
			if _, isIface := recv.Type().Underlying().(*types.Interface); isIface {
				key := "iface:" + typeKey(recv.Type()) + "." + obj.Name()
				if h := p.eng.libHandler(key); h != nil {
					fr := &Frame{p: p, fn: e.fn, sites: map[ssa.Instruction]map[string]int{}}
					return h(fr, nil, e.st, args, rt), rt
				}
			}
		}
		e.fail("no SSA for function %s", obj.FullName())
	}
	key := funcKey(fn)
	if h := p.eng.libHandler(key); h != nil {
		fr := &Frame{p: p, fn: e.fn, sites: map[ssa.Instruction]map[string]int{}}
		return h(fr, nil, e.st, args, rt), rt
	}
	if p.eng.recursiveSpec[key] {
		return p.specApp(fn, args, rt), rt
	}
	if len(fn.Blocks) == 0 {
		e.fail("function %s has no body and no model", key)
	}
	// pure inline execution on a scratch copy of the state
	st := e.st.clone()
	st.Guard = True()
	nf := p.newFrame(fn, "spec:", 1)
	nf.pure = true
	nobl := len(p.obligations)
	out, res := p.run(nf, args, st)
	// drop safety obligations generated inside spec evaluation
	p.obligations = p.obligations[:nobl]
	if out == nil || len(res) == 0 {
		e.fail("spec function %s could not be evaluated", key)
	}
	if len(res) == 1 {
		return res[0], rt
	}
	return TupleV(res), rt
}

// specApp: uninterpreted application + one unfolding of the definition.
func (p *Proof) specApp(fn *ssa.Function, args []Value, rt types.Type) Value {
	var argTerms []*Term
	var sorts []string
	for i, a := range args {
		ts := flatten(fn.Params[i].Type(), a, func(x PtrV) *Term { return p.opaquePtr(nil, x) })
		for _, t := range ts {
			argTerms = append(argTerms, t)
			sorts = append(sorts, t.Sort)
		}
	}
	rs, ok := scalarSort(rt)
	if !ok {
		panic("contract: recursive spec function must return a scalar: " + fn.Name())
	}
	name := B.DeclareFun("spec."+fn.Pkg.Pkg.Name()+"."+fn.Name(), sorts, rs)
	app := B.App(name, rs, argTerms...)
	if !p.specSeen[app.id] && !p.inSpecUnfold && !p.eng.uninterpretedSpec[funcKey(fn)] {
		p.specSeen[app.id] = true
		// unfold once: app == body(args) with recursive calls left uninterpreted
		p.inSpecUnfold = true
		st := &State{Guard: True(), Locals: map[*Cell]Value{}, Heap: map[string]*Term{}, Ghost: map[string]*Term{}, HeapTop: p.heapTop0}
		nf := p.newFrame(fn, "spec:", 1)
		nf.pure = true
		nobl := len(p.obligations)
		nass := len(p.assumptions)
		_, res := p.run(nf, args, st)
		p.obligations = p.obligations[:nobl]
		p.assumptions = p.assumptions[:nass] // assumptions made during unfolding are dropped (pure code)
		p.inSpecUnfold = false
		if len(res) == 1 {
			p.specDefs = append(p.specDefs, Eq(app, res[0].(Scalar).T))
		}
	}
	return Scalar{app}
}

// ---- environments for functions

// funcEnv builds the contract environment of fn with parameter values args.
func (p *Proof) calleeEnv(f *ssa.Function, c *Contract, args []Value, st, old *State) *CEnv {
	env := &CEnv{p: p, pkg: pkgOfFunc(f), fn: f, vars: map[string]cvar{}, st: st, old: old}
	for i, prm := range f.Params {
		if i < len(args) {
			env.vars[prm.Name()] = cvar{coerceNil(args[i], prm.Type()), prm.Type()}
		}
	}
	return env
}

func (e *CEnv) bindResults(f *ssa.Function, res Value) {
	rs := f.Signature.Results()
	var vals []Value
	switch x := res.(type) {
	case TupleV:
		vals = x
	case nil:
	default:
		vals = []Value{x}
	}
	for i := 0; i < rs.Len() && i < len(vals); i++ {
		r := rs.At(i)
		if r.Name() != "" && r.Name() != "_" {
			e.vars[r.Name()] = cvar{vals[i], r.Type()}
		}
		e.vars[fmt.Sprintf("result%d", i)] = cvar{vals[i], r.Type()}
		if rs.Len() == 1 {
			e.vars["result"] = cvar{vals[i], r.Type()}
		}
	}
}

// havocLvalue havocs the location denoted by a modifies item in state st (evaluated in e.st = pre-state).
func (e *CEnv) havocLvalue(cl *Clause, st *State) {
	p := e.p
	e.where = "modifies " + cl.Src
	switch n := cl.Expr.(type) {
	case *ast.Ident:
		switch {
		case n.Name == "heap" || n.Name == "everything":
			for key, old := range st.Heap {
				if !strings.HasPrefix(key, "G:") || n.Name == "everything" {
					st.Heap[key] = B.Fresh("mod."+key, old.Sort)
				}
			}
			for key, init := range p.initHeap {
				if _, ok := st.Heap[key]; !ok && (!strings.HasPrefix(key, "G:") || n.Name == "everything") {
					st.Heap[key] = B.Fresh("mod."+key, init.Sort)
				}
			}
			p.heapHavocked = true
			p.newEpoch(st)
			if n.Name == "everything" {
				st.EpochG = st.Epoch
			}
			return
		case strings.HasPrefix(n.Name, "ghost__"):
			g := n.Name[7:]
			old, ok := st.Ghost[g]
			if !ok {
				e.fail("unknown ghost $%s", g)
			}
			st.Ghost[g] = B.Fresh("mod.$"+g, old.Sort)
			return
		}
		// package variable
		if obj := e.pkg.Scope().Lookup(n.Name); obj != nil {
			if v, ok := obj.(*types.Var); ok {
				key := "G:" + v.Pkg().Name() + "." + v.Name()
				for _, l := range leavesOf(v.Type()) {
					st.Heap[key+l.Path] = B.Fresh("mod."+key+l.Path, l.Sort)
				}
				return
			}
		}
		// a variable captured by a function literal: local cells are outside the heap frame (the
		// literal is proved with arbitrary captured values and its effect on them is stated by ensures)
		if e.fn != nil {
			for _, fv := range e.fn.FreeVars {
				if fv.Name() == n.Name {
					return
				}
			}
		}
		e.fail("cannot modify %s", n.Name)
	case *ast.StarExpr:
		v, t := e.eval(n.X)
		pv, ok := v.(PtrV)
		if !ok {
			e.fail("modifies *x needs a pointer")
		}
		elem := t.Underlying().(*types.Pointer).Elem()
		fr := &Frame{p: p, fn: e.fn}
		nv := freshValue(elem, "mod")
		p.assume(True(), p.typeInv(st, elem, nv))
		pv.Null = False()
		fr.store(nil, st, pv, nv, elem)
		return
	case *ast.BasicLit:
		// "G:pkgname.Var": a package variable of a package this one does not import directly
		if n.Kind == token.STRING {
			key, _ := strconv.Unquote(n.Value)
			if strings.HasPrefix(key, "G:") {
				if dot := strings.Index(key, "."); dot > 2 {
					pn, vn := key[2:dot], key[dot+1:]
					for _, pp := range p.eng.pkgs {
						if pp.Types == nil || pp.Types.Name() != pn {
							continue
						}
						if v, ok := pp.Types.Scope().Lookup(vn).(*types.Var); ok {
							for _, l := range leavesOf(v.Type()) {
								st.Heap[key+l.Path] = B.Fresh("mod."+key+l.Path, l.Sort)
							}
							return
						}
					}
				}
				for k, old := range st.Heap {
					if k == key || strings.HasPrefix(k, key+".") {
						st.Heap[k] = B.Fresh("mod."+k, old.Sort)
					}
				}
				for k, init := range p.initHeap {
					if _, ok := st.Heap[k]; !ok && (k == key || strings.HasPrefix(k, key+".")) {
						st.Heap[k] = B.Fresh("mod."+k, init.Sort)
					}
				}
				return
			}
		}
		e.fail("cannot modify %s", cl.Src)
	case *ast.SelectorExpr:
		// pkg.Var: a package variable of an imported package
		if id, ok := n.X.(*ast.Ident); ok {
			if pv, _ := e.tryPkg(id.Name); pv != nil {
				if v, ok := pv.Scope().Lookup(n.Sel.Name).(*types.Var); ok {
					key := "G:" + v.Pkg().Name() + "." + v.Name()
					for _, l := range leavesOf(v.Type()) {
						st.Heap[key+l.Path] = B.Fresh("mod."+key+l.Path, l.Sort)
					}
					return
				}
			}
		}
		// x.f.g...: find the innermost prefix that is a pointer, then follow value fields
		var names []string
		var cur ast.Expr = n
		var v Value
		var t types.Type
		for {
			s, ok := cur.(*ast.SelectorExpr)
			if !ok {
				e.fail("modifies x.f needs x to be a pointer")
			}
			names = append([]string{s.Sel.Name}, names...)
			bv, bt := e.eval(s.X)
			if _, isPtr := bt.Underlying().(*types.Pointer); isPtr {
				v, t = bv, bt
				break
			}
			cur = s.X
		}
		pt := t.Underlying().(*types.Pointer)
		pv, ok := v.(PtrV)
		if !ok {
			e.fail("modifies x.f: x is %T", v)
		}
		var root types.Type = pt.Elem()
		path := ""
		ft := root
		var index []int
		for _, nm := range names {
			obj, idx, _ := types.LookupFieldOrMethod(ft, true, e.pkgOf(ft), nm)
			if obj == nil {
				e.fail("no field %s", nm)
			}
			for _, i := range idx {
				u, ok := ft.Underlying().(*types.Struct)
				if !ok {
					e.fail("modifies: cannot cross a pointer inside the path at %s", nm)
				}
				path += "." + fieldName(u, i)
				ft = u.Field(i).Type()
				index = append(index, i)
			}
		}
		var ref *Term
		switch pv.Kind {
		case KObj:
			ref = pv.Ref
		case KField:
			ps, _ := pathString(pv.RootT, pv.Path)
			root, path, ref = pv.RootT, ps+path, pv.Ref
		case KLocal:
			nv := freshValue(ft, "mod")
			p.assume(True(), p.typeInv(st, ft, nv))
			full := append(append([]int{}, pv.Path...), index...)
			st.Locals[pv.Cell] = inject(st.Locals[pv.Cell], full, nv)
			return
		default:
			e.fail("modifies through this pointer kind is unsupported")
		}
		nv := freshValue(ft, "mod")
		p.assume(True(), p.typeInv(st, ft, nv))
		p.storeObj(st, root, ref, path, ft, nv)
		return
	case *ast.CallExpr:
		if id, ok := n.Fun.(*ast.Ident); ok && id.Name == "maps" {
			// maps(K, V): the contents of every map of this type may change
			kv, _ := e.eval(n.Args[0])
			vv, _ := e.eval(n.Args[1])
			kt, ok1 := kv.(typeV)
			vt, ok2 := vv.(typeV)
			if !ok1 || !ok2 {
				e.fail("maps(K, V) needs two types")
			}
			m := MapV{K: kt.T, V: vt.T}
			ks := keySorts(m.K)
			dk := mapDomKey(m)
			p.heapCell(st, dk, SArr(SRef, nestedArr(ks, SBool)))
			st.Heap[dk] = B.Fresh("mod.mapdom", SArr(SRef, nestedArr(ks, SBool)))
			for _, l := range leavesOf(m.V) {
				vk := mapValKey(m, l.Path)
				p.heapCell(st, vk, SArr(SRef, nestedArr(ks, l.Sort)))
				st.Heap[vk] = B.Fresh("mod.mapval", SArr(SRef, nestedArr(ks, l.Sort)))
			}
			return
		}
		if id, ok := n.Fun.(*ast.Ident); ok && id.Name == "entries" {
			v, _ := e.eval(n.Args[0])
			m, ok := v.(MapV)
			if !ok {
				e.fail("entries needs a map")
			}
			ks := keySorts(m.K)
			dk := mapDomKey(m)
			dc := p.heapCell(st, dk, SArr(SRef, nestedArr(ks, SBool)))
			st.Heap[dk] = Store(dc, m.Ref, B.Fresh("mod.mapdom", nestedArr(ks, SBool)))
			for _, l := range leavesOf(m.V) {
				vk := mapValKey(m, l.Path)
				vc := p.heapCell(st, vk, SArr(SRef, nestedArr(ks, l.Sort)))
				st.Heap[vk] = Store(vc, m.Ref, B.Fresh("mod.mapval", nestedArr(ks, l.Sort)))
			}
			return
		}
		if id, ok := n.Fun.(*ast.Ident); ok && id.Name == "elems" {
			v, _ := e.eval(n.Args[0])
			s, ok := v.(SliceV)
			if !ok {
				e.fail("elems needs a slice")
			}
			for _, l := range leavesOf(s.Elem) {
				key := elemsKey(s.Elem, l.Path)
				srt := SArr(SBV(64), l.Sort)
				c := p.heapCell(st, key, SArr(SRef, srt))
				st.Heap[key] = Store(c, s.Ref, B.Fresh("mod.elems", srt))
			}
			return
		}
	}
	e.fail("unsupported modifies item")
}

// lvalueTargets resolves a modifies item to the heap cells and the single object it designates, without
// changing any state. ok=false for items that are not a single object (heap, ghosts, globals, locals).
func (e *CEnv) lvalueTargets(cl *Clause) (keys []string, ref *Term, ok bool) {
	defer func() {
		if r := recover(); r != nil {
			keys, ref, ok = nil, nil, false
		}
	}()
	e.where = "modifies " + cl.Src
	switch n := cl.Expr.(type) {
	case *ast.SelectorExpr:
		var names []string
		var cur ast.Expr = n
		var v Value
		var t types.Type
		for {
			s, isSel := cur.(*ast.SelectorExpr)
			if !isSel {
				return nil, nil, false
			}
			names = append([]string{s.Sel.Name}, names...)
			bv, bt := e.eval(s.X)
			if _, isPtr := bt.Underlying().(*types.Pointer); isPtr {
				v, t = bv, bt
				break
			}
			cur = s.X
		}
		pv, isP := v.(PtrV)
		if !isP || pv.Kind != KObj {
			return nil, nil, false
		}
		root := t.Underlying().(*types.Pointer).Elem()
		path := ""
		ft := root
		for _, nm := range names {
			obj, idx, _ := types.LookupFieldOrMethod(ft, true, e.pkgOf(ft), nm)
			if obj == nil {
				return nil, nil, false
			}
			for _, i := range idx {
				u, isS := ft.Underlying().(*types.Struct)
				if !isS {
					return nil, nil, false
				}
				path += "." + fieldName(u, i)
				ft = u.Field(i).Type()
			}
		}
		for _, l := range leavesOf(ft) {
			keys = append(keys, objKey(root, path+l.Path))
		}
		return keys, pv.Ref, true
	case *ast.CallExpr:
		id, isId := n.Fun.(*ast.Ident)
		if !isId {
			return nil, nil, false
		}
		switch id.Name {
		case "entries":
			v, _ := e.eval(n.Args[0])
			m, isM := v.(MapV)
			if !isM {
				return nil, nil, false
			}
			keys = append(keys, mapDomKey(m))
			for _, l := range leavesOf(m.V) {
				keys = append(keys, mapValKey(m, l.Path))
			}
			return keys, m.Ref, true
		case "elems":
			v, _ := e.eval(n.Args[0])
			s, isS := v.(SliceV)
			if !isS {
				return nil, nil, false
			}
			for _, l := range leavesOf(s.Elem) {
				keys = append(keys, elemsKey(s.Elem, l.Path))
			}
			return keys, s.Ref, true
		}
	}
	return nil, nil, false
}

// tryPkg resolves an identifier to an imported package (by alias or name) without failing.
func (e *CEnv) tryPkg(name string) (pk *types.Package, ok bool) {
	defer func() {
		if r := recover(); r != nil {
			pk, ok = nil, false
		}
	}()
	if e.locals != nil {
		if _, _, found := e.locals(name, e.st); found {
			return nil, false
		}
	}
	if _, isVar := e.vars[name]; isVar {
		return nil, false
	}
	v, _ := e.evalIdent(name)
	if pv, isP := v.(pkgV); isP {
		return pv.P, true
	}
	return nil, false
}
