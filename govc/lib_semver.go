package main

// Assumed contracts of golang.org/x/mod/semver, go/version and slices.Clone (used by the config
// generator and the server's validate): comparisons and validity are uninterpreted functions of the
// strings; Sort permutes its argument in place; Clone returns a fresh slice of the same length.

import (
	"go/types"

	"golang.org/x/tools/go/ssa"
)

func init() {
	pure := func(name string) { libEffTable[name] = noEffect }
	for _, k := range []string{"golang.org/x/mod/semver.Compare", "go/version.Compare"} {
		fname := map[bool]string{true: "cmp.semver", false: "cmp.goversion"}[k[2] == 'l']
		reg(k, "a function of the two strings with values -1, 0, +1, 0 for equal strings, and antisymmetric: Compare(a, b) == -Compare(b, a)", func(fr *Frame, in ssa.Instruction, st *State, args []Value, rt types.Type) Value {
			B.DeclareFun(fname, []string{SStr, SStr}, SBV(64))
			r := B.App(fname, SBV(64), sTerm(args[0]), sTerm(args[1]))
			fr.p.assume(True(), And(BVSle(BVInt(-1, 64), r), BVSle(r, BVInt(1, 64))))
			fr.p.assume(True(), Implies(Eq(sTerm(args[0]), sTerm(args[1])), Eq(r, BVInt(0, 64))))
			fr.p.assume(True(), Eq(r, BVNeg(B.App(fname, SBV(64), sTerm(args[1]), sTerm(args[0])))))
			return Scalar{r}
		})
		pure(k)
	}
	for _, k := range []string{"golang.org/x/mod/semver.IsValid", "go/version.IsValid"} {
		fname := map[bool]string{true: "valid.semver", false: "valid.goversion"}[k[2] == 'l']
		reg(k, "a predicate of the string; no string is both a semantic version (which starts with 'v') and a Go version (which starts with \"go\")", func(fr *Frame, in ssa.Instruction, st *State, args []Value, rt types.Type) Value {
			B.DeclareFun("valid.semver", []string{SStr}, SBool)
			B.DeclareFun("valid.goversion", []string{SStr}, SBool)
			a := sTerm(args[0])
			fr.p.assume(True(), Not(And(B.App("valid.semver", SBool, a), B.App("valid.goversion", SBool, a))))
			return Scalar{B.App(fname, SBool, a)}
		})
		pure(k)
	}
	for _, k := range []string{"golang.org/x/mod/semver.Canonical", "golang.org/x/mod/semver.Prerelease", "golang.org/x/mod/semver.MajorMinor", "golang.org/x/mod/semver.Major", "golang.org/x/mod/semver.Build"} {
		fname := "semver." + k[len("golang.org/x/mod/semver."):]
		reg(k, "a function of the string", func(fr *Frame, in ssa.Instruction, st *State, args []Value, rt types.Type) Value {
			B.DeclareFun(fname, []string{SStr}, SStr)
			r := B.App(fname, SStr, sTerm(args[0]))
			fr.p.assume(True(), fr.p.typeInv(st, types.Typ[types.String], Scalar{r}))
			return Scalar{r}
		})
		pure(k)
	}
	reg("golang.org/x/mod/semver.Sort", "permutes the elements of its argument in place (which permutation is not modelled)", func(fr *Frame, in ssa.Instruction, st *State, args []Value, rt types.Type) Value {
		if sl, ok := args[0].(SliceV); ok {
			fr.havocArg(st, sl, 0)
		}
		return nil
	})
	libEffTable["golang.org/x/mod/semver.Sort"] = func(e *effects) {
		k := elemsKey(types.Typ[types.String], "")
		e.heap[k] = true
		e.heapSort[k] = SArr(SRef, SArr(SBV(64), SStr))
	}
	reg("slices.Clone", "returns a fresh slice with the same length (and elements)", func(fr *Frame, in ssa.Instruction, st *State, args []Value, rt types.Type) Value {
		p := fr.p
		src, ok := args[0].(SliceV)
		r := p.freshSliceResult(st, rt, "clone")
		if ok {
			p.assume(True(), Eq(r.Len, src.Len))
		}
		return r
	})
	libEffTable["slices.Clone"] = func(e *effects) { e.alloc = true }
}
