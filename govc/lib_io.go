package main

// Assumed contracts of bufio, encoding/json streams and net/url used by the godev worker. The
// library objects (Scanner, Encoder, Decoder) are opaque: their state is not part of the modelled heap,
// so each call returns arbitrary results of the stated shape and changes nothing the proofs can read.

import (
	"go/types"

	"golang.org/x/tools/go/ssa"
)

func init() {
	pure := func(name string) { libEffTable[name] = noEffect }
	nonNilPtr := func(name, doc string) {
		reg(name, doc, func(fr *Frame, in ssa.Instruction, st *State, args []Value, rt types.Type) Value {
			r := B.Fresh("obj", SRef)
			fr.p.assume(True(), Neq(r, BVInt(0, 64)))
			return PtrV{Kind: KObj, Elem: rt.Underlying().(*types.Pointer).Elem(), Ref: r, Null: False()}
		})
		pure(name)
	}
	nonNilPtr("bufio.NewScanner", "returns a non-nil scanner")
	nonNilPtr("encoding/json.NewEncoder", "returns a non-nil encoder")
	nonNilPtr("encoding/json.NewDecoder", "returns a non-nil decoder")

	reg("(*bufio.Scanner).Buffer", "changes only the scanner", func(fr *Frame, in ssa.Instruction, st *State, args []Value, rt types.Type) Value {
		return nil
	})
	pure("(*bufio.Scanner).Buffer")
	reg("(*bufio.Scanner).Scan", "returns whether another token is available (arbitrary); false at end of input or on error", func(fr *Frame, in ssa.Instruction, st *State, args []Value, rt types.Type) Value {
		return Scalar{B.Fresh("scan", SBool)}
	})
	pure("(*bufio.Scanner).Scan")
	reg("(*bufio.Scanner).Bytes", "returns an arbitrary byte slice", func(fr *Frame, in ssa.Instruction, st *State, args []Value, rt types.Type) Value {
		return fr.freshResult(st, rt, "scan.bytes")
	})
	pure("(*bufio.Scanner).Bytes")
	reg("(*bufio.Scanner).Text", "returns an arbitrary string", func(fr *Frame, in ssa.Instruction, st *State, args []Value, rt types.Type) Value {
		return freshStr(fr.p, st, "scan.text")
	})
	pure("(*bufio.Scanner).Text")
	reg("(*bufio.Scanner).Err", "returns the first non-EOF error met by the scanner (arbitrary)", func(fr *Frame, in ssa.Instruction, st *State, args []Value, rt types.Type) Value {
		return freshErr(fr.p, "scan.err")
	})
	pure("(*bufio.Scanner).Err")

	reg("(*encoding/json.Encoder).Encode", "may fail; writes only to the encoder's writer", func(fr *Frame, in ssa.Instruction, st *State, args []Value, rt types.Type) Value {
		return freshErr(fr.p, "encode.err")
	})
	pure("(*encoding/json.Encoder).Encode")
	reg("(*encoding/json.Decoder).Decode", "may fail; writes only into the value pointed to", func(fr *Frame, in ssa.Instruction, st *State, args []Value, rt types.Type) Value {
		if iv, ok := args[1].(IfaceV); ok && iv.Dyn != nil {
			fr.havocArg(st, iv.Dyn, 0)
		}
		return freshErr(fr.p, "decode.err")
	})

	reg("(*encoding/json.Decoder).Token", "returns the next token or an error (io.EOF at the end of the input)", func(fr *Frame, in ssa.Instruction, st *State, args []Value, rt types.Type) Value {
		return TupleV{IfaceV{Ref: B.Fresh("token", SRef)}, freshErr(fr.p, "token.err")}
	})
	pure("(*encoding/json.Decoder).Token")
	reg("(*encoding/json.Decoder).More", "reports whether another element follows", func(fr *Frame, in ssa.Instruction, st *State, args []Value, rt types.Type) Value {
		return Scalar{B.Fresh("more", SBool)}
	})
	pure("(*encoding/json.Decoder).More")
	reg("net/http.MaxBytesReader", "returns a non-nil reader limited to n bytes of r (ghost function http.limit(reader) == n)", func(fr *Frame, in ssa.Instruction, st *State, args []Value, rt types.Type) Value {
		r := B.Fresh("limited", SRef)
		B.DeclareFun("http.limit", []string{SRef}, SBV(64))
		B.DeclareFun("http.limited", []string{SRef}, SRef)
		fr.p.assume(True(), Neq(r, BVInt(0, 64)))
		fr.p.assume(True(), Eq(B.App("http.limit", SBV(64), r), sTerm(args[2])))
		if iv, ok := args[1].(IfaceV); ok {
			fr.p.assume(True(), Eq(B.App("http.limited", SRef, r), iv.Ref))
		}
		return IfaceV{Ref: r}
	})
	pure("net/http.MaxBytesReader")
	reg("(*net/url.URL).Query", "returns the parsed query values (arbitrary); the URL is not changed", func(fr *Frame, in ssa.Instruction, st *State, args []Value, rt types.Type) Value {
		return fr.freshResult(st, rt, "query")
	})
	pure("(*net/url.URL).Query")
	reg("(net/url.Values).Get", "returns an arbitrary string", func(fr *Frame, in ssa.Instruction, st *State, args []Value, rt types.Type) Value {
		return freshStr(fr.p, st, "values.get")
	})
	pure("(net/url.Values).Get")
	reg("(*net/http.Request).Context", "returns the request's context", func(fr *Frame, in ssa.Instruction, st *State, args []Value, rt types.Type) Value {
		return fr.freshResult(st, rt, "ctx")
	})
	pure("(*net/http.Request).Context")

	reg("html.EscapeString", "returns a string", func(fr *Frame, in ssa.Instruction, st *State, args []Value, rt types.Type) Value {
		return freshStr(fr.p, st, "escaped")
	})
	pure("html.EscapeString")
	reg("(*strings.Builder).WriteString", "appends to the builder (its content is not modelled); never fails", func(fr *Frame, in ssa.Instruction, st *State, args []Value, rt types.Type) Value {
		return fr.freshResult(st, rt, "wrote")
	})
	pure("(*strings.Builder).WriteString")
	reg("(*strings.Builder).String", "returns the accumulated string (arbitrary here)", func(fr *Frame, in ssa.Instruction, st *State, args []Value, rt types.Type) Value {
		return freshStr(fr.p, st, "built")
	})
	pure("(*strings.Builder).String")
}
