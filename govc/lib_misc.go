package main

// Assumed contracts: logging, JSON, regexp, net/http, directory listing, misc.

import (
	"go/types"

	"golang.org/x/tools/go/ssa"
)

func init() {
	pure := func(name string) { libEffTable[name] = noEffect }
	nopRecv := func(what string) libFn {
		return func(fr *Frame, in ssa.Instruction, st *State, args []Value, rt types.Type) Value {
			if pv, ok := args[0].(PtrV); ok && in != nil && pv.Null != tFalse {
				fr.p.oblige(fr.siteName(in, "call")+".nilrecv", "nil", in.Pos(), st.Guard, Not(pv.Null), "method "+what+" called on a nil pointer")
			}
			return fr.freshResult(st, rt, "r."+what)
		}
	}
	for _, m := range []string{"Printf", "Println", "Print", "Fatalf", "Fatal"} {
		reg("(*log.Logger)."+m, "writes a log line; panics on a nil *Logger; no effect on program state", nopRecv("Logger."+m))
		pure("(*log.Logger)." + m)
		fatal := m == "Fatalf" || m == "Fatal"
		reg("log."+m, "writes a log line; no effect on program state (Fatal, Fatalf: does not return)", func(fr *Frame, in ssa.Instruction, st *State, args []Value, rt types.Type) Value {
			if fatal {
				st.Guard = False()
			}
			return nil
		})
		pure("log." + m)
	}
	reg("log.New", "returns a non-nil logger", func(fr *Frame, in ssa.Instruction, st *State, args []Value, rt types.Type) Value {
		r := B.Fresh("logger", SRef)
		fr.p.assume(True(), Neq(r, BVInt(0, 64)))
		return PtrV{Kind: KObj, Elem: rt.Underlying().(*types.Pointer).Elem(), Ref: r, Null: False()}
	})
	pure("log.New")
	reg("io.MultiWriter", "returns a non-nil writer", func(fr *Frame, in ssa.Instruction, st *State, args []Value, rt types.Type) Value {
		r := B.Fresh("mw", SRef)
		fr.p.assume(True(), Neq(r, BVInt(0, 64)))
		return IfaceV{Ref: r}
	})
	pure("io.MultiWriter")

	reg("os.ReadDir", "may fail; returns a fresh slice of non-nil entries in any number", func(fr *Frame, in ssa.Instruction, st *State, args []Value, rt types.Type) Value {
		p := fr.p
		tt := rt.(*types.Tuple)
		s := p.freshSliceResult(st, tt.At(0).Type(), "readdir")
		p.nonNilElems[s.Ref.id] = true
		return TupleV{s, freshErr(p, "readdir.err")}
	})
	libEffTable["os.ReadDir"] = func(e *effects) { e.alloc = true }
	for _, k := range []string{"iface:fs.DirEntry.Name", "iface:os.DirEntry.Name", "iface:fs.FileInfo.Name"} {
		reg(k, "returns a string", func(fr *Frame, in ssa.Instruction, st *State, args []Value, rt types.Type) Value {
			nm := dirEntryName(args[0].(IfaceV).Ref)
			fr.p.assume(True(), fr.p.typeInv(st, types.Typ[types.String], Scalar{nm}))
			return Scalar{nm}
		})
		pure(k)
	}
	for _, k := range []string{"iface:fs.DirEntry.IsDir", "iface:fs.FileInfo.IsDir"} {
		reg(k, "returns a bool (a function of the entry)", func(fr *Frame, in ssa.Instruction, st *State, args []Value, rt types.Type) Value {
			B.DeclareFun("dirent.isdir", []string{SRef}, SBool)
			return Scalar{B.App("dirent.isdir", SBool, args[0].(IfaceV).Ref)}
		})
		pure(k)
	}
	reg("os.Stat", "may fail with any error; err==nil <=> info != nil", func(fr *Frame, in ssa.Instruction, st *State, args []Value, rt types.Type) Value {
		p := fr.p
		info := IfaceV{Ref: B.Fresh("fileinfo", SRef)}
		e := freshErr(p, "stat.err")
		p.assume(True(), Eq(Eq(e.Ref, BVInt(0, 64)), Neq(info.Ref, BVInt(0, 64))))
		return TupleV{info, e}
	})
	pure("os.Stat")
	reg("errors.Is", "a predicate of (err, target); false for a nil err; true when err == target", func(fr *Frame, in ssa.Instruction, st *State, args []Value, rt types.Type) Value {
		fn := B.DeclareFun("err.is", []string{SRef, SRef}, SBool)
		e, tg := args[0].(IfaceV), args[1].(IfaceV)
		r := B.App(fn, SBool, e.Ref, tg.Ref)
		fr.p.assume(True(), Implies(Eq(e.Ref, BVInt(0, 64)), Not(r)))
		fr.p.assume(True(), Implies(And(Neq(e.Ref, BVInt(0, 64)), Eq(e.Ref, tg.Ref)), r))
		return Scalar{r}
	})
	pure("errors.Is")
	for _, k := range []string{"os.IsNotExist", "os.IsExist"} {
		k := k
		reg(k, "a predicate of the error; false for nil", func(fr *Frame, in ssa.Instruction, st *State, args []Value, rt types.Type) Value {
			fn := B.DeclareFun("err."+sanitize(k), []string{SRef}, SBool)
			e := args[0].(IfaceV)
			r := B.App(fn, SBool, e.Ref)
			fr.p.assume(True(), Implies(Eq(e.Ref, BVInt(0, 64)), Not(r)))
			return Scalar{r}
		})
		pure(k)
	}
	reg("os.Getpid", "returns an int", func(fr *Frame, in ssa.Instruction, st *State, args []Value, rt types.Type) Value {
		return Scalar{B.Fresh("pid", SBV(64))}
	})
	pure("os.Getpid")

	reg("strings.Fields", "returns a fresh slice of any length >= 0", func(fr *Frame, in ssa.Instruction, st *State, args []Value, rt types.Type) Value {
		p := fr.p
		ref := p.allocRef(st)
		n := B.Fresh("fields.len", SBV(64))
		p.assume(True(), And(BVSle(BVInt(0, 64), n), BVSle(n, strLen(sTerm(args[0])))))
		return SliceV{Ref: ref, Off: BVInt(0, 64), Len: n, Cap: n, Elem: rt.Underlying().(*types.Slice).Elem()}
	})
	libEffTable["strings.Fields"] = func(e *effects) { e.alloc = true }
	reg("strings.ReplaceAll", "returns a string", func(fr *Frame, in ssa.Instruction, st *State, args []Value, rt types.Type) Value {
		return freshStr(fr.p, st, "replaceall")
	})
	pure("strings.ReplaceAll")

	reg("(*regexp.Regexp).FindStringSubmatch", "nil, or a fresh slice with one entry per group + 1; for dateRE (one group): match[1] is a 10-byte substring of the name ending 5 bytes before its end", func(fr *Frame, in ssa.Instruction, st *State, args []Value, rt types.Type) Value {
		p := fr.p
		s := p.freshSliceResult(st, rt, "submatch")
		p.assume(True(), Or(Eq(s.Ref, BVInt(0, 64)), BVSle(BVInt(1, 64), s.Len)))
		return s
	})
	libEffTable["(*regexp.Regexp).FindStringSubmatch"] = func(e *effects) { e.alloc = true }

	reg("encoding/json.MarshalIndent", "may fail; on success returns fresh bytes (an uninterpreted injective rendering of the value)", func(fr *Frame, in ssa.Instruction, st *State, args []Value, rt types.Type) Value {
		p := fr.p
		tt := rt.(*types.Tuple)
		s := p.freshSliceResult(st, tt.At(0).Type(), "json")
		return TupleV{s, freshErr(p, "json.err")}
	})
	libEffTable["encoding/json.MarshalIndent"] = func(e *effects) { e.alloc = true }
	reg("encoding/json.Unmarshal", "may fail; writes only into the value pointed to", func(fr *Frame, in ssa.Instruction, st *State, args []Value, rt types.Type) Value {
		if iv, ok := args[1].(IfaceV); ok && iv.Dyn != nil {
			fr.havocArg(st, iv.Dyn, 0)
		}
		return freshErr(fr.p, "unmarshal.err")
	})

	reg("net/http.Post", "may fail; err==nil <=> resp != nil; any status code", func(fr *Frame, in ssa.Instruction, st *State, args []Value, rt types.Type) Value {
		p := fr.p
		tt := rt.(*types.Tuple)
		pt := tt.At(0).Type().Underlying().(*types.Pointer)
		r := freshPtr(p, st, pt.Elem(), "resp")
		e := freshErr(p, "post.err")
		p.assume(True(), Eq(Eq(e.Ref, BVInt(0, 64)), Not(r.Null)))
		p.assume(True(), Or(r.Null, BVUge(r.Ref, st.HeapTop)))
		st.HeapTop = p.bumpHeapTop(st.HeapTop, "heaptop")
		p.assume(True(), BVUlt(r.Ref, st.HeapTop))
		return TupleV{r, e}
	})
	libEffTable["net/http.Post"] = func(e *effects) { e.alloc = true }
	reg("bytes.NewReader", "returns a non-nil reader", func(fr *Frame, in ssa.Instruction, st *State, args []Value, rt types.Type) Value {
		r := B.Fresh("reader", SRef)
		fr.p.assume(True(), Neq(r, BVInt(0, 64)))
		return PtrV{Kind: KObj, Elem: rt.Underlying().(*types.Pointer).Elem(), Ref: r, Null: False()}
	})
	pure("bytes.NewReader")

	reg("golang.org/x/telemetry/internal/configstore.Download", "runs `go mod download`; may fail; err==nil => config != nil; does not touch program memory", func(fr *Frame, in ssa.Instruction, st *State, args []Value, rt types.Type) Value {
		p := fr.p
		tt := rt.(*types.Tuple)
		pt := tt.At(0).Type().Underlying().(*types.Pointer)
		cfgp := freshPtr(p, st, pt.Elem(), "dlconfig")
		e := freshErr(p, "download.err")
		p.assume(True(), Implies(Eq(e.Ref, BVInt(0, 64)), Not(cfgp.Null)))
		p.assume(True(), Or(cfgp.Null, BVUge(cfgp.Ref, st.HeapTop)))
		st.HeapTop = p.bumpHeapTop(st.HeapTop, "heaptop")
		p.assume(True(), BVUlt(cfgp.Ref, st.HeapTop))
		return TupleV{cfgp, freshStr(p, st, "dlversion"), e}
	})
	libEffTable["golang.org/x/telemetry/internal/configstore.Download"] = func(e *effects) { e.alloc = true }
	reg("crypto/rand.Read", "fills b; may fail", func(fr *Frame, in ssa.Instruction, st *State, args []Value, rt types.Type) Value {
		fr.havocArg(st, args[0], 0)
		return TupleV{Scalar{B.Fresh("rand.n", SBV(64))}, freshErr(fr.p, "rand.err")}
	})
	reg("encoding/binary.littleEndian.Uint64", "8 bytes little-endian; requires len(b) >= 8", func(fr *Frame, in ssa.Instruction, st *State, args []Value, rt types.Type) Value {
		p := fr.p
		b := args[1].(SliceV)
		if in != nil {
			p.oblige(fr.siteName(in, "call")+".len", "bounds", in.Pos(), st.Guard, BVSle(BVInt(8, 64), b.Len), "binary.LittleEndian.Uint64 needs 8 bytes")
		}
		return Scalar{p.readLE(st, b.Ref, b.Off, 8)}
	})
	pure("encoding/binary.littleEndian.Uint64")
	reg("math.Float64frombits", "reinterprets the bits", func(fr *Frame, in ssa.Instruction, st *State, args []Value, rt types.Type) Value {
		return Scalar{B.mk("(_ to_fp 11 53)", SFloat, sTerm(args[0]))}
	})
	pure("math.Float64frombits")
	reg("math.IsNaN", "NaN test", func(fr *Frame, in ssa.Instruction, st *State, args []Value, rt types.Type) Value {
		return Scalar{B.mk("fp.isNaN", SBool, sTerm(args[0]))}
	})
	pure("math.IsNaN")
	reg("math.IsInf", "infinity test (any sign when sign==0)", func(fr *Frame, in ssa.Instruction, st *State, args []Value, rt types.Type) Value {
		return Scalar{B.mk("fp.isInfinite", SBool, sTerm(args[0]))}
	})
	pure("math.IsInf")
	reg("math.Abs", "absolute value", func(fr *Frame, in ssa.Instruction, st *State, args []Value, rt types.Type) Value {
		return Scalar{B.mk("fp.abs", SFloat, sTerm(args[0]))}
	})
	pure("math.Abs")
	reg("math.Frexp", "x == frac * 2^exp with 0.5 <= |frac| < 1 for finite non-zero x (frac has the sign of x)", func(fr *Frame, in ssa.Instruction, st *State, args []Value, rt types.Type) Value {
		p := fr.p
		x := sTerm(args[0])
		f := B.Fresh("frexp.frac", SFloat)
		half := floatConst(0.5)
		one := floatConst(1)
		pos := B.mk("fp.gt", SBool, x, floatConst(0))
		fin := And(Not(B.mk("fp.isNaN", SBool, x)), Not(B.mk("fp.isInfinite", SBool, x)))
		p.assume(True(), Implies(And(pos, fin), And(B.mk("fp.leq", SBool, half, f), B.mk("fp.lt", SBool, f, one))))
		return TupleV{Scalar{f}, Scalar{B.Fresh("frexp.exp", SBV(64))}}
	})
	pure("math.Frexp")
}

func dirEntryName(ref *Term) *Term {
	B.DeclareFun("dirent.name", []string{SRef}, SStr)
	t := B.App("dirent.name", SStr, ref)
	return t
}
