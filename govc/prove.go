package main

import (
	"fmt"
	"go/ast"
	"go/token"
	"go/types"
	"sort"
	"strings"

	"golang.org/x/tools/go/ssa"
)

func (e *Engine) newProof(fn *ssa.Function) *Proof {
	name := ""
	if fn != nil {
		name = e.funcDisplayName(fn)
	}
	p := &Proof{eng: e, fn: fn, fname: name, notes: map[string]bool{}, unmodelled: map[string]bool{}, inlined: map[string]bool{},
		assumedLib: map[string]bool{}, initHeap: map[string]*Term{}, params: map[string]Value{}, specApps: map[string]bool{},
		strSeen: map[int]bool{}, specSeen: map[int]bool{}, typeInvSeen: map[int]bool{}, nonNilElems: map[int]bool{}}
	p.privateBytes = e.privateNext
	return p
}

func (p *Proof) initialState() *State {
	st := &State{Guard: True(), Locals: map[*Cell]Value{}, Heap: map[string]*Term{}, Ghost: map[string]*Term{}}
	p.heapTop0 = B.Const("heaptop0", SRef)
	st.HeapTop = p.heapTop0
	p.assume(True(), BVUlt(BVInt(16, 64), p.heapTop0))
	p.assume(True(), BVUlt(p.heapTop0, BVConst(new(bigInt).Lsh(big1, 62), 64)))
	var gs []string
	for g := range p.eng.ghosts {
		gs = append(gs, g)
	}
	sort.Strings(gs)
	for _, g := range gs {
		st.Ghost[g] = B.Const("ghost0."+g, ghostSort(p.eng.ghosts[g]))
	}
	return st
}

// frame-level contract environment
func (fr *Frame) env(st *State, localsFirst bool) *CEnv {
	env := &CEnv{p: fr.p, pkg: pkgOfFunc(fr.fn), fn: fr.fn, vars: map[string]cvar{}, st: st, old: fr.entrySt, loopEntry: fr.loopEntry, iterEntry: fr.iterEntry}
	if !localsFirst {
		for i, prm := range fr.fn.Params {
			if i < len(fr.args) {
				env.vars[prm.Name()] = cvar{coerceNil(fr.args[i], prm.Type()), prm.Type()}
			}
		}
	}
	env.visitedOf = func(m MapV, s *State) (*Term, bool) {
		// the range state whose map reference is syntactically this map; prefer the most recent
		var best *rangeState
		for _, rs := range fr.rangeIt {
			if rs.isMap && rs.mapv.Ref == m.Ref {
				if best == nil || rs.cell.id > best.cell.id {
					best = rs
				}
			}
		}
		if best == nil {
			return nil, false
		}
		v, ok := s.Locals[best.cell]
		if !ok {
			return nil, false
		}
		return v.(Scalar).T, true
	}
	env.locals = func(name string, s *State) (Value, types.Type, bool) {
		if name == "rangeexpr" && fr.rangeSeq != nil {
			return fr.rangeSeq, fr.rangeSeqT, true
		}
		if name == "rangeindex" && fr.rangeCell != nil {
			if v, ok := s.Locals[fr.rangeCell]; ok {
				return v, fr.rangeCell.Typ, true
			}
		}
		// latest-declared alloc with this name that has a cell in s
		var best *ssa.Alloc
		for a, c := range fr.cells {
			if a.Comment != name {
				continue
			}
			if _, ok := s.Locals[c]; !ok {
				continue
			}
			if best == nil || a.Pos() > best.Pos() {
				best = a
			}
		}
		if best != nil {
			c := fr.cells[best]
			return s.Locals[c], c.Typ, true
		}
		// heap-allocated struct locals
		for v, val := range fr.regs {
			if a, ok := v.(*ssa.Alloc); ok && a.Comment == name {
				if pv, ok := val.(PtrV); ok && pv.Kind == KObj {
					t := a.Type().(*types.Pointer).Elem()
					return fr.p.loadObj(s, t, pv.Ref, "", t), t, true
				}
			}
		}
		for i, fv := range fr.fn.FreeVars {
			if fv.Name() == name && i < len(fr.bindings) {
				if pv, ok := fr.bindings[i].(PtrV); ok {
					t := fv.Type().(*types.Pointer).Elem()
					pv.Null = False()
					return fr.load(nil, s, pv, t), t, true
				}
			}
		}
		if localsFirst {
			for i, prm := range fr.fn.Params {
				if prm.Name() == name && i < len(fr.args) {
					return coerceNil(fr.args[i], prm.Type()), prm.Type(), true
				}
			}
		}
		return nil, nil, false
	}
	return env
}

func pkgOfFunc(f *ssa.Function) *types.Package {
	for f != nil {
		if f.Pkg != nil {
			return f.Pkg.Pkg
		}
		if f.Origin() != nil && f.Origin().Pkg != nil {
			return f.Origin().Pkg.Pkg
		}
		f = f.Parent()
	}
	return nil
}

func (fr *Frame) evalBool(x ast.Expr, st *State, src string) *Term {
	env := fr.env(st, true)
	return env.evalBool(x, src)
}

// tryEvalBool evaluates a contract expression, reporting ok=false if an identifier is not in scope here.
func (fr *Frame) tryEvalBool(x ast.Expr, st *State, src string) (t *Term, ok bool) {
	defer func() {
		if r := recover(); r != nil {
			if s, isS := r.(string); isS && strings.Contains(s, "undefined identifier") {
				t, ok = nil, false
				return
			}
			panic(r)
		}
	}()
	return fr.evalBool(x, st, src), true
}

func (fr *Frame) evalContract(x ast.Expr, st *State, src string) (Value, types.Type) {
	env := fr.env(st, true)
	env.where = src
	v, t := env.eval(x)
	return materialize(v, t)
}

// atCall applies `at call` clauses of the enclosing contract at a call site.
func (fr *Frame) atCall(in ssa.Instruction, cc *ssa.CallCommon, st *State, after bool, result Value, rt types.Type) {
	if fr.con == nil || len(fr.con.AtCalls) == 0 {
		return
	}
	name := calleeShortName(cc)
	ord := fr.callOrd(in)
	j := 0
	for _, ac := range fr.con.AtCalls {
		if ac.Callee != name || ac.Ord != ord || ac.After != after {
			continue
		}
		if fr.usedAt != nil {
			fr.usedAt[ac] = true
		}
		env := fr.env(st, true)
		if after && fr.preCall != nil {
			env.old = fr.preCall
		}
		if after && result != nil {
			if tv, ok := result.(TupleV); ok {
				for i, v := range tv {
					env.vars[fmt.Sprintf("result%d", i)] = cvar{v, rt.(*types.Tuple).At(i).Type()}
				}
			} else {
				env.vars["result"] = cvar{result, rt}
			}
		}
		// arguments of the call are visible as arg0, arg1, ...
		for i, a := range cc.Args {
			env.vars[fmt.Sprintf("arg%d", i)] = cvar{fr.val(a), a.Type()}
		}
		switch ac.Kind {
		case "assert":
			j++
			g := env.evalBool(ac.Expr, ac.Src)
			fr.p.oblige(fmt.Sprintf("%s%s/assert@%s#%d.%d", fr.prefix, fr.p.eng.funcDisplayName(fr.fn), name, ord, j), "assert", in.Pos(), st.Guard, g,
				"assertion before call of "+name+": "+ac.Src)
		case "assume":
			g := env.evalBool(ac.Expr, ac.Src)
			fr.p.assume(st.Guard, g)
			fr.p.assumedLib["assumed in "+fr.p.eng.funcDisplayName(fr.fn)+" at call "+name+": "+ac.Src] = true
		case "ghost":
			env.where = ac.Src
			v, t := env.eval(ac.Expr)
			v, _ = materialize(v, fr.p.eng.ghostType(ac.Ghost))
			_ = t
			st.Ghost[ac.Ghost] = v.(Scalar).T
		}
	}
}

type ProofResult struct {
	Func        string
	File        string
	Line        int
	Obligations []*Obligation
	Errors      []string
	Notes       []string
	Unmodelled  []string
	Inlined     []string
	Assumed     []string
	Trusted     bool
	proof       *Proof
}

func keys(m map[string]bool) []string {
	var out []string
	for k := range m {
		out = append(out, k)
	}
	sort.Strings(out)
	return out
}

// ProveFunction generates all obligations for fn under its contract.
func (e *Engine) ProveFunction(fn *ssa.Function) (res *ProofResult) {
	p := e.newProof(fn)
	pos := e.fset.Position(fn.Pos())
	res = &ProofResult{Func: p.fname, File: pos.Filename, Line: pos.Line, proof: p}
	defer func() {
		if r := recover(); r != nil {
			msg := fmt.Sprint(r)
			if !strings.HasPrefix(msg, "contract:") && !strings.HasPrefix(msg, "unsupported") {
				panic(r)
			}
			p.errs = append(p.errs, msg)
			res.Errors = p.errs
		}
	}()
	c := e.contractFor(fn)
	if c != nil && c.Trusted {
		res.Trusted = true
		return res
	}
	st := p.initialState()
	fr := p.newFrame(fn, "", 0)
	fr.usedAt = map[*CallClause]bool{}
	var args []Value
	for _, prm := range fn.Params {
		v := freshValue(prm.Type(), "in."+prm.Name())
		p.assume(True(), p.typeInv(st, prm.Type(), v))
		args = append(args, v)
		p.params[prm.Name()] = v
	}
	// implicit precondition: pointer receiver is non-nil
	if fn.Signature.Recv() != nil && len(args) > 0 {
		if pv, ok := args[0].(PtrV); ok {
			p.assume(True(), Not(pv.Null))
		}
	}
	// a function literal proved on its own: its captured variables hold arbitrary values
	for _, fv := range fn.FreeVars {
		et := fv.Type().(*types.Pointer).Elem()
		cell := NewCell(fv.Name(), et)
		v := freshValue(et, "cap."+fv.Name())
		p.assume(True(), p.typeInv(st, et, v))
		st.Locals[cell] = v
		fr.bindings = append(fr.bindings, PtrV{Kind: KLocal, Elem: et, Cell: cell, RootT: et, Null: False()})
	}
	fr.args = args
	fr.entrySt = st.clone()
	if c != nil {
		env := fr.env(st, false)
		env.old = nil
		for _, cl := range c.Requires {
			g := env.evalBool(cl.Expr, cl.Src)
			p.assume(True(), g)
		}
	}
	if c != nil {
		p.con = c
		p.computeAllowed(fr, c)
	}
	// vacuity: assumptions so far must be satisfiable
	vo := &Obligation{Name: p.fname + "/vacuity#1", Kind: "vacuity", Guard: True(), Goal: False(), NAssume: len(p.assumptions), Desc: "preconditions are satisfiable", Fn: p.fname, IsCover: true}
	vo.Pos = pos
	p.obligations = append(p.obligations, vo)

	if c != nil && c.RecoversFirst {
		ok, why := recoversFirst(fn)
		g := False()
		if ok {
			g = True()
		}
		o := p.oblige(p.fname+"/recovers-first", "structure", fn.Pos(), True(), g, "the first action of the function is to defer a closure that calls recover(): "+why)
		_ = o
	}
	out, results := p.run(fr, args, st)
	if out != nil && out.Guard != tFalse {
		// vacuity at exit: everything assumed along the way (library contracts, callee postconditions,
		// invariants) must be consistent with reaching a return
		eo := &Obligation{Name: p.fname + "/vacuity#exit", Kind: "vacuity", Guard: out.Guard, Goal: False(), NAssume: len(p.assumptions), Desc: "the assumptions made up to the function's exit are satisfiable", Fn: p.fname, IsCover: true}
		eo.Pos = pos
		p.obligations = append(p.obligations, eo)
		// and every individual return point that the symbolic execution reached must be reachable under the
		// assumptions (a contradictory library contract or invariant on one branch would otherwise prove
		// everything on that branch)
		if len(fr.rets) > 1 {
			for j, rp := range fr.rets {
				if rp.st.Guard == tFalse {
					continue
				}
				ro := &Obligation{Name: fmt.Sprintf("%s/vacuity#ret%d", p.fname, j+1), Kind: "vacuity", Guard: rp.st.Guard, Goal: False(), NAssume: len(p.assumptions), Desc: "return point is reachable under the assumptions made", Fn: p.fname, IsCover: true, Informational: true}
				ro.Pos = pos
				p.obligations = append(p.obligations, ro)
			}
		}
	}
	if out != nil && c != nil {
		env := fr.env(out, false)
		var rv Value
		if len(results) == 1 {
			rv = results[0]
		} else if len(results) > 1 {
			rv = TupleV(results)
		}
		env.bindResults(fn, rv)
		for k, cl := range c.Ensures {
			g := env.evalBool(cl.Expr, cl.Src)
			_ = k
			o := p.oblige(fmt.Sprintf("%s/ensures#%d", p.fname, cl.N), "ensures", fn.Pos(), out.Guard, g, "postcondition: "+cl.Src)
			if len(fr.rets) > 1 {
				for j, rp := range fr.rets {
					e2 := fr.env(rp.st, false)
					var rv2 Value
					if len(rp.vals) == 1 {
						rv2 = rp.vals[0]
					} else if len(rp.vals) > 1 {
						rv2 = TupleV(rp.vals)
					}
					e2.bindResults(fn, rv2)
					g2 := e2.evalBool(cl.Expr, cl.Src)
					o.Parts = append(o.Parts, &Obligation{Name: fmt.Sprintf("%s@ret%d", o.Name, j+1), Kind: "ensures", Guard: rp.st.Guard, Goal: g2, NAssume: o.NAssume, Fn: p.fname, Pos: o.Pos})
				}
			}
		}
		p.frameCheck(fr, c, out)
	}
	if c != nil {
		for _, lc := range c.Loops {
			if !c.usedLoops[lc.Ord] {
				p.errorf("contract: %s: loop %d named in the contract does not exist in the function", p.fname, lc.Ord)
			}
		}
		for _, ac := range c.AtCalls {
			if !fr.usedAt[ac] {
				p.errorf("contract: %s: call site %s#%d named in the contract does not exist in the function", p.fname, ac.Callee, ac.Ord)
			}
		}
	}
	// collect inputs for models
	var roots []*Term
	for _, a := range args {
		roots = append(roots, valueTerms(a)...)
	}
	p.paramTerms = roots
	for _, o := range p.obligations {
		o.Inputs = roots
	}
	res.Obligations = p.obligations
	res.Errors = p.errs
	res.Notes = keys(p.notes)
	res.Unmodelled = keys(p.unmodelled)
	res.Inlined = keys(p.inlined)
	res.Assumed = keys(p.assumedLib)
	return res
}

func valueTerms(v Value) []*Term {
	switch x := v.(type) {
	case Scalar:
		return []*Term{x.T}
	case StructV:
		var out []*Term
		for _, f := range x.F {
			out = append(out, valueTerms(f)...)
		}
		return out
	case SliceV:
		return []*Term{x.Ref, x.Off, x.Len, x.Cap}
	case PtrV:
		if x.Ref != nil {
			return []*Term{x.Ref}
		}
	case MapV:
		return []*Term{x.Ref}
	case IfaceV:
		return []*Term{x.Ref}
	case ArrayV:
		if x.A != nil {
			return []*Term{x.A}
		}
	}
	return nil
}

// frame clauses: for a heap key, "pre-existing objects outside the modifies clause keep their entry values".
type frameClause struct {
	key  string
	ord  int
	goal func(st *State) *Term
}

func (p *Proof) computeAllowed(fr *Frame, c *Contract) {
	allowed := fr.entrySt.clone()
	env := fr.env(fr.entrySt, false)
	env.old = nil
	for _, m := range c.Modifies {
		if id, ok := m.Expr.(*ast.Ident); ok && (id.Name == "heap" || id.Name == "everything") {
			p.allowAll = true
		}
	}
	for _, m := range c.Modifies {
		if id, ok := m.Expr.(*ast.Ident); ok && (id.Name == "heap" || id.Name == "everything") {
			continue
		}
		if p.allowAll {
			// once the whole heap may change only ghosts and package variables still have to be named
			id, ok := m.Expr.(*ast.Ident)
			if !ok {
				if _, isLit := m.Expr.(*ast.BasicLit); isLit {
					env.havocLvalue(m, allowed)
				}
				if sel, isSel := m.Expr.(*ast.SelectorExpr); isSel {
					if x, isID := sel.X.(*ast.Ident); isID {
						if pk, _ := env.tryPkg(x.Name); pk != nil {
							env.havocLvalue(m, allowed)
						}
					}
				}
				continue
			}
			if !strings.HasPrefix(id.Name, "ghost__") {
				isPkgVar := false
				if env.pkg != nil {
					if _, ok := env.pkg.Scope().Lookup(id.Name).(*types.Var); ok {
						isPkgVar = true
					}
				}
				if !isPkgVar {
					continue
				}
			}
		}
		env.havocLvalue(m, allowed)
	}
	p.allowedHeap = allowed
}

// ghostFrameCheck: a ghost that the modifies clause does not name has its entry value at exit
// (callers keep such ghosts unchanged across a call of this function).
func (p *Proof) ghostFrameCheck(fr *Frame, out *State) {
	if p.allowedHeap == nil {
		return
	}
	var gs []string
	for g := range out.Ghost {
		gs = append(gs, g)
	}
	sort.Strings(gs)
	for _, g := range gs {
		init, ok := fr.entrySt.Ghost[g]
		if !ok || p.allowedHeap.Ghost[g] != init || out.Ghost[g] == init {
			continue
		}
		p.oblige(fmt.Sprintf("%s/frame#ghost_%s", p.fname, g), "frame", fr.fn.Pos(), out.Guard, Eq(out.Ghost[g], init), "ghost $"+g+" is not in the modifies clause and keeps its entry value")
	}
}

func (p *Proof) frameGoal(k string, fin *Term) *Term {
	init, ok := p.initHeap[k]
	if !ok || fin == init {
		return True()
	}
	if strings.HasPrefix(k, "atomicword:") {
		// model cells for atomic words behind opaque pointers: callers havoc them after every call
		// that modifies anything, so they are outside the frame
		return True()
	}
	if !strings.HasPrefix(k, "G:") && p.framedSyntactically(fin, init, map[int]bool{}) {
		return True()
	}
	alw, ok := p.allowedHeap.Heap[k]
	if !ok {
		alw = init
	}
	if strings.HasPrefix(k, "G:") {
		if alw != init {
			return True()
		}
		return Eq(fin, init)
	}
	r := B.BoundVar("r", SRef)
	unchanged := Eq(Select(fin, r), Select(init, r))
	allowedHere := False()
	if alw != init {
		allowedHere = permittedRefs(alw, init, r)
	}
	if allowedHere == tTrue {
		return True()
	}
	// reference 0 (nil) denotes no object: what a model stores there is immaterial
	return Forall([]*Term{r}, Implies(And(BVUlt(r, p.heapTop0), Neq(r, BVInt(0, 64))), Or(allowedHere, unchanged)))
}

func (p *Proof) frameClauses(st *State, eff *effects) []frameClause {
	if p.allowAll || p.allowedHeap == nil {
		return nil
	}
	var ks []string
	for k := range eff.heap {
		ks = append(ks, k)
	}
	if eff.allHeap {
		for k := range p.initHeap {
			if !eff.heap[k] {
				ks = append(ks, k)
			}
		}
	}
	sort.Strings(ks)
	var out []frameClause
	for i, k := range ks {
		k := k
		if _, ok := p.initHeap[k]; !ok {
			continue
		}
		out = append(out, frameClause{key: k, ord: i + 1, goal: func(s *State) *Term {
			fin, ok := s.Heap[k]
			if !ok {
				return True()
			}
			return p.frameGoal(k, fin)
		}})
	}
	return out
}

// frameCheck: heap cells not covered by the modifies clause are unchanged for pre-existing objects.
func (p *Proof) frameCheck(fr *Frame, c *Contract, out *State) {
	p.ghostFrameCheck(fr, out)
	if p.allowedHeap == nil {
		return
	}
	if p.allowAll {
		// "modifies heap" does not cover package variables (callers keep them across the call):
		// each one must be named, or be unchanged at exit. "modifies everything" covers them.
		for _, m := range c.Modifies {
			if id, ok := m.Expr.(*ast.Ident); ok && id.Name == "everything" {
				return
			}
		}
		var gks []string
		for k := range out.Heap {
			if strings.HasPrefix(k, "G:") {
				gks = append(gks, k)
			}
		}
		sort.Strings(gks)
		for _, k := range gks {
			g := p.frameGoal(k, out.Heap[k])
			if g == tTrue {
				continue
			}
			p.oblige(fmt.Sprintf("%s/frame#%s", p.fname, sanitize(k)), "frame", fr.fn.Pos(), out.Guard, g, "package variable not named in the modifies clause is unchanged: "+k)
		}
		return
	}
	var ks []string
	for k := range out.Heap {
		ks = append(ks, k)
	}
	sort.Strings(ks)
	for _, k := range ks {
		g := p.frameGoal(k, out.Heap[k])
		if g == tTrue {
			continue
		}
		p.oblige(fmt.Sprintf("%s/frame#%s", p.fname, sanitize(k)), "frame", fr.fn.Pos(), out.Guard, g, "only locations in the modifies clause change in "+k)
	}
}

// permittedRefs: alw is init with a chain of stores at permitted refs; return (r == ref1 || r == ref2 ...).
func permittedRefs(alw, init, r *Term) *Term {
	var cs []*Term
	cur := alw
	for cur != init {
		if cur.Op == "store" {
			cs = append(cs, Eq(r, cur.Args[1]))
			cur = cur.Args[0]
			continue
		}
		// fully fresh cell: everything permitted
		return True()
	}
	return Or(cs...)
}

// ---- lemma obligations

func (e *Engine) ProveLemma(l *LemmaDecl) *ProofResult {
	sp := e.spkgs[l.Pkg]
	// use any function of the package as context (for package scope)
	var ctx *ssa.Function
	for _, m := range sp.Members {
		if f, ok := m.(*ssa.Function); ok && f.Name() != "init" {
			ctx = f
			break
		}
	}
	p := e.newProof(ctx)
	p.fname = sp.Pkg.Name() + ".lemma:" + l.Name
	res := &ProofResult{Func: p.fname, File: l.File, Line: l.Line, proof: p}
	defer func() {
		if r := recover(); r != nil {
			msg := fmt.Sprint(r)
			if !strings.HasPrefix(msg, "contract:") && !strings.HasPrefix(msg, "unsupported") {
				panic(r)
			}
			p.errs = append(p.errs, msg)
			res.Errors = p.errs
		}
	}()
	st := p.initialState()
	env := &CEnv{p: p, pkg: sp.Pkg, fn: ctx, vars: map[string]cvar{}, st: st}
	g := env.evalBool(l.Expr, l.Src)
	o := p.oblige(p.fname, "lemma", token.NoPos, True(), g, "lemma: "+l.Src)
	o.Pos = token.Position{Filename: l.File, Line: l.Line}
	res.Obligations = p.obligations
	res.Errors = p.errs
	return res
}

// recoversFirst: structural check that no call precedes `defer func() { ... recover() ... }()`.
func recoversFirst(fn *ssa.Function) (bool, string) {
	if len(fn.Blocks) == 0 {
		return false, "no body"
	}
	for _, in := range fn.Blocks[0].Instrs {
		switch x := in.(type) {
		case *ssa.Alloc, *ssa.Store, *ssa.DebugRef, *ssa.MakeClosure, *ssa.UnOp, *ssa.FieldAddr:
			continue
		case *ssa.Call:
			if b, ok := x.Call.Value.(*ssa.Builtin); ok && b.Name() == "ssa:deferstack" {
				continue
			}
			return false, "a call precedes the deferred recover: " + x.String()
		case *ssa.Defer:
			var target *ssa.Function
			switch v := x.Call.Value.(type) {
			case *ssa.MakeClosure:
				target = v.Fn.(*ssa.Function)
			case *ssa.Function:
				target = v
			}
			if target == nil {
				return false, "first defer is not a function literal"
			}
			for _, b := range target.Blocks {
				for _, i2 := range b.Instrs {
					if c, ok := i2.(*ssa.Call); ok {
						if bi, ok := c.Call.Value.(*ssa.Builtin); ok && bi.Name() == "recover" {
							return true, "ok"
						}
					}
				}
			}
			return false, "first deferred function does not call recover()"
		default:
			return false, "unexpected instruction before the deferred recover: " + in.String()
		}
	}
	return false, "no defer in the entry block"
}
