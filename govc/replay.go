package main

import (
	"encoding/json"
	"fmt"
	"os"
	"path/filepath"
	"strings"
)

type ReplayFile struct {
	Property   string            `json:"property"`
	Obligation string            `json:"obligation"`
	Kind       string            `json:"kind"`
	Function   string            `json:"function"`
	Where      string            `json:"where"`
	Statement  string            `json:"statement"`
	Status     string            `json:"solver_status"`
	Solver     string            `json:"solver"`
	Model      map[string]string `json:"model,omitempty"`
	Script     string            `json:"smt_script"`
	ReplayKind string            `json:"replay_kind"`
	Reproduced bool              `json:"reproduced_on_real_code"`
	TestFile   string            `json:"test_file,omitempty"`
	TestOutput string            `json:"test_output,omitempty"`
	Note       string            `json:"note,omitempty"`
}

func (cr *checkRun) replay(r *ProofResult, o *Obligation, dir string) (string, bool) {
	os.MkdirAll(dir, 0755)
	base := sanitize(strings.ReplaceAll(o.Name, "/", "_"))
	path := filepath.Join(dir, base+".json")
	script := filepath.Join(dir, base+".smt2")
	os.WriteFile(script, []byte(o.Script), 0644)
	rf := &ReplayFile{Property: cr.spec.ID, Obligation: o.Name, Kind: o.Kind, Function: o.Fn, Where: posStr(o), Statement: o.Desc,
		Status: o.Status, Solver: o.Solver, Model: o.Model, Script: script, ReplayKind: "none"}
	if o.Status != "sat" {
		rf.Note = "the solver returned no model (" + o.Status + "): the obligation is no longer provable from the current source; no failing input found"
	}
	reproduced := false
	if o.Status == "sat" {
		reproduced = cr.replayDirect(r, o, rf, dir, base)
	}
	rf.Reproduced = reproduced
	data, _ := json.MarshalIndent(rf, "", " ")
	os.WriteFile(path, data, 0644)
	return path, reproduced
}

func cmdReplay(args []string) {
	if len(args) < 1 {
		fmt.Println("usage: govc replay <replay.json>")
		os.Exit(2)
	}
	data, err := os.ReadFile(args[0])
	if err != nil {
		fmt.Println(err)
		os.Exit(2)
	}
	var rf ReplayFile
	json.Unmarshal(data, &rf)
	fmt.Printf("obligation %s (%s) at %s\n  %s\n  solver: %s -> %s\n", rf.Obligation, rf.Kind, rf.Where, rf.Statement, rf.Solver, rf.Status)
	for k, v := range rf.Model {
		fmt.Printf("  %s = %s\n", k, v)
	}
	if rf.TestFile != "" {
		out, failed := runReplayTest(rf.TestFile, rf.Function)
		fmt.Println(out)
		if failed {
			os.Exit(1)
		}
	} else {
		fmt.Println("  no executable replay:", rf.Note)
	}
}
