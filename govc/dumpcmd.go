package main

import (
	"fmt"
	"os"
	"strings"
)

func cmdDump(args []string) {
	dir, pkg, fn := args[0], args[1], args[2]
	eng, err := LoadEngine(dir, strings.Split(pkg, ","), "")
	if err != nil {
		fmt.Println(err)
		os.Exit(2)
	}
	for _, pp := range eng.pkgs {
		for _, f := range eng.instances(pp.PkgPath, fn) {
			f.WriteTo(os.Stdout)
			fr := eng.newProof(f).newFrame(f, "", 0)
			for in, m := range fr.sites {
				if k, ok := m["call"]; ok {
					fmt.Printf("site call#%d %s at %v\n", k, in.String(), eng.fset.Position(in.Pos()))
				}
			}
			for h, li := range fr.loops {
				fmt.Printf("loop %d: header block %d (%s), %d blocks\n", li.ord, h.Index, h.Comment, len(li.body))
				for b := range li.body {
					for _, in := range b.Instrs {
						if in.Pos().IsValid() {
							ps := eng.fset.Position(in.Pos())
							if ps.Line < 218 || ps.Line > 330 {
								fmt.Printf("   outlier: block %d %s at %v\n", b.Index, in.String(), ps)
							}
						}
					}
				}
			}
		}
	}
}
