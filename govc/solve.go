package main

import (
	"bytes"
	"context"
	"os/exec"
	"strings"
	"sync"
	"time"
)

type solverSpec struct {
	Name string
	Cmd  []string
}

var solverSeed int

// lateAfterS: seconds after which the late portfolio joins an undecided race.
const lateAfterS = 3

func solverList(timeoutS int) []solverSpec {
	ts := itoa(timeoutS)
	sd := itoa(solverSeed)
	return []solverSpec{
		{"z3-5.1.0", []string{"z3-new", "-in", "-T:" + ts, "smt.random_seed=" + sd, "sat.random_seed=" + sd}},
		{"z3-4.8.12", []string{"z3", "-in", "-T:" + ts, "smt.random_seed=" + sd, "sat.random_seed=" + sd}},
		{"cvc5-1.0", []string{"cvc5", "--lang=smt2", "--tlimit=" + ts + "000", "--produce-models", "--seed=" + sd}},
	}
}

func itoa(i int) string {
	if i == 0 {
		return "0"
	}
	var b []byte
	for i > 0 {
		b = append([]byte{byte('0' + i%10)}, b...)
		i /= 10
	}
	return string(b)
}

type solveResult struct {
	Status string // sat | unsat | unknown | timeout | error
	Solver string
	Millis int64
	Output string
}

func runSolver(ctx context.Context, s solverSpec, script string, timeoutS int) solveResult {
	cctx, cancel := context.WithTimeout(ctx, time.Duration(timeoutS+2)*time.Second)
	defer cancel()
	cmd := exec.CommandContext(cctx, s.Cmd[0], s.Cmd[1:]...)
	cmd.Stdin = strings.NewReader(script)
	var out bytes.Buffer
	cmd.Stdout = &out
	cmd.Stderr = &out
	t0 := time.Now()
	err := cmd.Run()
	ms := time.Since(t0).Milliseconds()
	o := out.String()
	first := strings.TrimSpace(strings.SplitN(strings.TrimSpace(o), "\n", 2)[0])
	r := solveResult{Solver: s.Name, Millis: ms, Output: o}
	switch first {
	case "sat", "unsat":
		r.Status = first
	case "unknown":
		r.Status = "unknown"
	case "timeout":
		r.Status = "timeout"
	default:
		if cctx.Err() != nil {
			r.Status = "timeout"
		} else if err != nil || first != "" {
			r.Status = "error"
			if strings.Contains(o, "timeout") || strings.Contains(o, "interrupted") {
				r.Status = "timeout"
			}
		} else {
			r.Status = "error"
		}
	}
	return r
}

// solveRace runs all solvers concurrently and returns the first definitive answer (or the best non-answer).
// With all=true it waits for every solver and reports disagreement.
func solveRace(script string, timeoutS int, all bool) (best solveResult, results []solveResult, disagree bool) {
	ctx, cancel := context.WithCancel(context.Background())
	defer cancel()
	specs := solverList(timeoutS)
	ch := make(chan solveResult, len(specs)+2)
	var wg sync.WaitGroup
	for _, s := range specs {
		wg.Add(1)
		go func(s solverSpec) {
			defer wg.Done()
			ch <- runSolver(ctx, s, script, timeoutS)
		}(s)
	}
	if !all && timeoutS > lateAfterS {
		// late portfolio: a goal that no solver has decided after a few seconds is often one
		// whose solving time varies wildly with the random seed (seconds to minutes); two more
		// z3 runs with other seeds join the race for the time that is left
		ch2 := ch
		wg.Add(1)
		go func() {
			defer wg.Done()
			select {
			case <-ctx.Done():
				return
			case <-time.After(time.Duration(lateAfterS) * time.Second):
			}
			rest := timeoutS - lateAfterS
			for k := 1; k <= 2; k++ {
				sd := itoa(solverSeed + 1000*k + 7)
				sp := solverSpec{"z3-5.1.0(seed " + sd + ")", []string{"z3-new", "-in", "-T:" + itoa(rest), "smt.random_seed=" + sd, "sat.random_seed=" + sd}}
				wg.Add(1)
				go func(sp solverSpec) {
					defer wg.Done()
					ch2 <- runSolver(ctx, sp, script, rest)
				}(sp)
			}
		}()
	}
	go func() { wg.Wait(); close(ch) }()
	got := false
	for r := range ch {
		results = append(results, r)
		def := r.Status == "sat" || r.Status == "unsat"
		if def {
			if got && best.Status != r.Status {
				disagree = true
			}
			if !got {
				best = r
				got = true
				if !all {
					cancel()
				}
			}
		} else if !got && (best.Status == "" || best.Status == "error") {
			best = r
		}
	}
	return
}
