package main

// Precise loop frames: for a heap cell havocked at a loop head, objects that existed at loop entry and
// are not the target of any store in the loop keep their entry values. Targets are determined for direct
// stores whose pointer is loop-invariant (a register defined before the loop, or a local that the loop
// does not assign); stores into objects allocated inside the loop do not count (they did not exist at
// entry). Any other writer (calls with effects on the cell, pointers that vary) disables the frame.

import (
	"go/ast"
	"go/token"
	"go/types"
	"strings"

	"golang.org/x/tools/go/ssa"
)

type loopWriters struct {
	refs    map[string][]*Term // heap key -> refs written (entry-state terms)
	unknown map[string]bool
}

// entryPtr evaluates a pointer-valued SSA value at loop entry if it is loop-invariant.
func (fr *Frame) entryValue(li *loopInfo, st *State, eff *effects, v ssa.Value) (Value, bool, bool) {
	// returns (value, known, freshInLoop)
	switch x := v.(type) {
	case *ssa.Alloc:
		if li.body[x.Block()] {
			return nil, false, true
		}
		if r, ok := fr.regs[x]; ok {
			return r, true, false
		}
	case *ssa.MakeMap, *ssa.MakeSlice:
		if in, ok := v.(ssa.Instruction); ok && li.body[in.Block()] {
			return nil, false, true
		}
		if r, ok := fr.regs[v]; ok {
			return r, true, false
		}
	case *ssa.UnOp:
		if x.Op == token.MUL {
			if al, ok := x.X.(*ssa.Alloc); ok {
				if li.body[al.Block()] {
					// local declared inside the loop: what it holds is assigned in the loop
					return fr.localAssignedFresh(li, al)
				}
				c := fr.cells[al]
				if c != nil && !eff.cells[c] {
					if val, ok := st.Locals[c]; ok {
						return val, true, false
					}
				}
				return nil, false, false
			}
			// load of a field through an invariant pointer whose cell is not written in the loop
			if fa, ok := x.X.(*ssa.FieldAddr); ok {
				base, known, freshIn := fr.entryValue(li, st, eff, fa.X)
				if freshIn {
					return fr.fieldOfFresh(li, fa)
				}
				if known {
					if pv, ok := base.(PtrV); ok && pv.Kind == KObj && pv.Elem != nil {
						stt := pv.Elem.Underlying().(*types.Struct)
						ft := stt.Field(fa.Field).Type()
						ps := "." + fieldName(stt, fa.Field)
						for _, l := range safeLeaves(ft) {
							if eff.heap[objKey(pv.Elem, ps+l.Path)] || eff.allHeap {
								return nil, false, false
							}
						}
						return fr.p.loadObj(st, pv.Elem, pv.Ref, ps, ft), true, false
					}
				}
			}
		}
	case *ssa.Parameter, *ssa.FreeVar:
		if r, ok := fr.regs[v]; ok {
			return r, true, false
		}
	default:
		if in, ok := v.(ssa.Instruction); ok {
			if !li.body[in.Block()] {
				if r, ok := fr.regs[v]; ok {
					return r, true, false
				}
			}
		}
	}
	return nil, false, false
}

// localAssignedFresh: a local declared in the loop body whose every assignment is a fresh allocation.
func (fr *Frame) localAssignedFresh(li *loopInfo, al *ssa.Alloc) (Value, bool, bool) {
	n := 0
	for b := range li.body {
		for _, in := range b.Instrs {
			if s, ok := in.(*ssa.Store); ok && s.Addr == al {
				n++
				switch v := s.Val.(type) {
				case *ssa.Alloc:
					if !li.body[v.Block()] {
						return nil, false, false
					}
				case *ssa.MakeMap, *ssa.MakeSlice:
				default:
					return nil, false, false
				}
			}
		}
	}
	if n == 0 {
		return nil, false, false
	}
	return nil, false, true
}

// fieldOfFresh: a field of an object allocated in the loop, where every store to that field in the loop
// stores a fresh allocation (composite literal with make(...)).
func (fr *Frame) fieldOfFresh(li *loopInfo, fa *ssa.FieldAddr) (Value, bool, bool) {
	root, ok := fa.X.(*ssa.Alloc)
	if !ok {
		return nil, false, false
	}
	n := 0
	for b := range li.body {
		for _, in := range b.Instrs {
			s, ok := in.(*ssa.Store)
			if !ok {
				continue
			}
			f2, ok := s.Addr.(*ssa.FieldAddr)
			if !ok || f2.X != root || f2.Field != fa.Field {
				continue
			}
			n++
			switch v := s.Val.(type) {
			case *ssa.MakeMap, *ssa.MakeSlice:
				_ = v
			default:
				return nil, false, false
			}
		}
	}
	if n == 0 {
		return nil, false, false
	}
	return nil, false, true
}

func (fr *Frame) loopWriters(li *loopInfo, st *State, eff *effects) *loopWriters {
	lw := &loopWriters{refs: map[string][]*Term{}, unknown: map[string]bool{}}
	if eff.allHeap {
		for k := range eff.heap {
			lw.unknown[k] = true
		}
		return lw
	}
	addRef := func(keys []string, v ssa.Value, pick func(Value) *Term) {
		val, known, freshIn := fr.entryValue(li, st, eff, v)
		if freshIn {
			return
		}
		if !known {
			for _, k := range keys {
				lw.unknown[k] = true
			}
			return
		}
		r := pick(val)
		if r == nil {
			for _, k := range keys {
				lw.unknown[k] = true
			}
			return
		}
		for _, k := range keys {
			lw.refs[k] = append(lw.refs[k], r)
		}
	}
	objRef := func(v Value) *Term {
		if pv, ok := v.(PtrV); ok && pv.Kind == KObj {
			return pv.Ref
		}
		return nil
	}
	for b := range li.body {
		for _, in := range b.Instrs {
			switch x := in.(type) {
			case *ssa.Store:
				switch a := x.Addr.(type) {
				case *ssa.Alloc:
					// local
				case *ssa.FieldAddr:
					// find root pointer and path
					var path []int
					var cur ssa.Value = a
					for {
						fa, ok := cur.(*ssa.FieldAddr)
						if !ok {
							break
						}
						path = append([]int{fa.Field}, path...)
						cur = fa.X
					}
					if al, ok := cur.(*ssa.Alloc); ok && !(al.Heap && isStructNonTime(al.Type().(*types.Pointer).Elem())) {
						continue // field of a local struct
					}
					if _, ok := cur.(*ssa.Global); ok {
						continue
					}
					pt, ok := cur.Type().Underlying().(*types.Pointer)
					if !ok {
						continue
					}
					ps, ft := pathString(pt.Elem(), path)
					var keys []string
					for _, l := range safeLeaves(ft) {
						keys = append(keys, objKey(pt.Elem(), ps+l.Path))
					}
					addRef(keys, cur, objRef)
				case *ssa.IndexAddr:
					if sl, ok := a.X.Type().Underlying().(*types.Slice); ok {
						var keys []string
						for _, l := range safeLeaves(sl.Elem()) {
							keys = append(keys, elemsKey(sl.Elem(), l.Path))
						}
						addRef(keys, a.X, func(v Value) *Term {
							if s, ok := v.(SliceV); ok {
								return s.Ref
							}
							return nil
						})
					}
				default:
					// store through a computed pointer: unknown target for cells of that type
					if pt, ok := x.Addr.Type().Underlying().(*types.Pointer); ok {
						for _, l := range safeLeaves(pt.Elem()) {
							lw.unknown[objKey(pt.Elem(), l.Path)] = true
						}
						lw.unknown[elemsKey(types.Typ[types.Uint8], "")] = true
					}
				}
			case *ssa.MapUpdate:
				if mt, ok := x.Map.Type().Underlying().(*types.Map); ok {
					m := MapV{K: mt.Key(), V: mt.Elem()}
					keys := []string{mapDomKey(m)}
					for _, l := range safeLeaves(m.V) {
						keys = append(keys, mapValKey(m, l.Path))
					}
					addRef(keys, x.Map, func(v Value) *Term {
						if mv, ok := v.(MapV); ok {
							return mv.Ref
						}
						return nil
					})
				}
			case *ssa.Call, *ssa.Defer:
				var cc *ssa.CallCommon
				if c, ok := x.(*ssa.Call); ok {
					cc = &c.Call
				} else {
					cc = &x.(*ssa.Defer).Call
				}
				if b, ok := cc.Value.(*ssa.Builtin); ok {
					switch b.Name() {
					case "append":
						continue // result is a fresh backing array in this model
					case "len", "cap", "min", "max", "print", "println", "panic", "recover", "ssa:wrapnilchk", "ssa:deferstack":
						continue
					}
				}
				// callee under contract with modifies items that designate single objects reachable from
				// loop-invariant arguments: known writers
				if f, ok := cc.Value.(*ssa.Function); ok && !cc.IsInvoke() {
					if c := fr.p.eng.contractFor(f); c != nil && !c.Inline && fr.p.eng.libHandler(funcKey(f)) == nil {
						if fr.modularWriters(li, st, eff, f, c, cc, lw) {
							continue
						}
					}
				}
				tmp := &effects{cells: map[*Cell]bool{}, heap: map[string]bool{}, heapSort: map[string]string{}, ghost: map[string]bool{}}
				fr.callEffects(fr.fn, cc, tmp, func(ssa.Value) {}, 0, map[*ssa.Function]bool{})
				for k := range tmp.heap {
					lw.unknown[k] = true
				}
				if tmp.allHeap || tmp.allMaps {
					for k := range eff.heap {
						lw.unknown[k] = true
					}
				}
			case *ssa.Slice:
				if _, ok := x.X.Type().Underlying().(*types.Pointer); ok {
					// slice of array: fresh copy in this model
				}
			}
		}
	}
	return lw
}

// applyLoopFrames: for every havocked cell whose writers are all known, the loop-head value is the entry
// value updated with fresh contents at the written objects only (definitional; no quantifier). Objects
// allocated by earlier iterations read as unconstrained junk of the entry array, which is sound.
func (fr *Frame) assumeLoopFrames(li *loopInfo, entry, n *State, eff *effects, reach *Term) {
	lw := fr.loopWriters(li, entry, eff)
	for key := range eff.heap {
		if lw.unknown[key] || len(key) > 1 && key[:2] == "G:" {
			continue
		}
		after, ok2 := n.Heap[key]
		if !ok2 {
			continue
		}
		before, ok1 := entry.Heap[key]
		if !ok1 {
			before = fr.p.heapCell(entry, key, after.Sort)
		}
		if before == after {
			continue
		}
		if len(before.Sort) < 6 || before.Sort[:6] != "(Array" {
			continue
		}
		_, es := arrSorts(before.Sort)
		cur := before
		seen := map[int]bool{}
		for _, w := range lw.refs[key] {
			if seen[w.id] {
				continue
			}
			seen[w.id] = true
			cur = Store(cur, w, B.Fresh("lpW."+key, es))
		}
		n.Heap[key] = cur
	}
}

// modularWriters: resolve every modifies item of callee c at this call to (cells, object) using the loop
// entry values of the arguments. Returns false if some item cannot be resolved.
func (fr *Frame) modularWriters(li *loopInfo, st *State, eff *effects, f *ssa.Function, c *Contract, cc *ssa.CallCommon, lw *loopWriters) bool {
	var args []Value
	known := make([]bool, len(cc.Args))
	for i, a := range cc.Args {
		v, ok, freshIn := fr.entryValue(li, st, eff, a)
		if ok && !freshIn {
			known[i] = true
			args = append(args, v)
		} else {
			args = append(args, safeFresh(a.Type()))
		}
	}
	type tgt struct {
		keys []string
		ref  *Term
	}
	var tgts []tgt
	for _, m := range c.Modifies {
		if id, ok := m.Expr.(*ast.Ident); ok {
			if strings.HasPrefix(id.Name, "ghost__") {
				continue
			}
			return false
		}
		pi := paramIndex(f, m.Expr)
		if ce, ok := m.Expr.(*ast.CallExpr); ok && len(ce.Args) > 0 {
			pi = paramIndex(f, ce.Args[0])
		}
		if pi < 0 || pi >= len(known) || !known[pi] {
			return false
		}
		env := fr.p.calleeEnv(f, c, args, st, nil)
		keys, ref, ok := env.lvalueTargets(m)
		if !ok {
			return false
		}
		tgts = append(tgts, tgt{keys, ref})
	}
	for _, t := range tgts {
		for _, k := range t.keys {
			lw.refs[k] = append(lw.refs[k], t.ref)
		}
	}
	return true
}
