package main

// Assumed contracts of os/exec and the few os/time functions used when the telemetry sidecar is
// started (start.go).

import (
	"go/types"

	"golang.org/x/tools/go/ssa"
)

func init() {
	pure := func(name string) { libEffTable[name] = noEffect }

	reg("os.Executable", "returns any path, or an error", func(fr *Frame, in ssa.Instruction, st *State, args []Value, rt types.Type) Value {
		return TupleV{freshStr(fr.p, st, "exe"), freshErr(fr.p, "exe.err")}
	})
	pure("os.Executable")
	reg("os.Environ", "returns a fresh slice of strings", func(fr *Frame, in ssa.Instruction, st *State, args []Value, rt types.Type) Value {
		return fr.p.freshSliceResult(st, rt, "environ")
	})
	libEffTable["os.Environ"] = func(e *effects) { e.alloc = true }
	for _, k := range []string{"os.IsNotExist", "os.IsExist"} {
		name := k
		reg(k, "a predicate of the error; false for nil", func(fr *Frame, in ssa.Instruction, st *State, args []Value, rt types.Type) Value {
			fn := B.DeclareFun("err."+name[3:], []string{SRef}, SBool)
			e := args[0].(IfaceV)
			r := B.App(fn, SBool, e.Ref)
			fr.p.assume(True(), Implies(Eq(e.Ref, BVInt(0, 64)), Not(r)))
			return Scalar{r}
		})
		pure(k)
	}
	reg("os/exec.Command", "returns a new non-nil command; nothing is started", func(fr *Frame, in ssa.Instruction, st *State, args []Value, rt types.Type) Value {
		r := fr.p.allocRef(st)
		return PtrV{Kind: KObj, Elem: rt.Underlying().(*types.Pointer).Elem(), Ref: r, Null: False()}
	})
	libEffTable["os/exec.Command"] = func(e *effects) { e.alloc = true }
	reg("(*os/exec.Cmd).StdinPipe", "may fail; err == nil => a non-nil pipe whose dynamic type is *os.File; changes only the command's Stdin and private fields (not read by the proofs)", func(fr *Frame, in ssa.Instruction, st *State, args []Value, rt types.Type) Value {
		p := fr.p
		w := IfaceV{Ref: B.Fresh("pipe", SRef)}
		e := freshErr(p, "pipe.err")
		p.assume(True(), Implies(Eq(e.Ref, BVInt(0, 64)), Neq(w.Ref, BVInt(0, 64))))
		// documented: "the pipe ... is of type *os.File" (the repository relies on it)
		if osPkg := fr.fn.Prog.ImportedPackage("os"); osPkg != nil {
			if tn, ok := osPkg.Pkg.Scope().Lookup("File").(*types.TypeName); ok {
				p.assume(True(), Implies(Eq(e.Ref, BVInt(0, 64)), Eq(dynType(w.Ref), p.eng.typeID(types.NewPointer(tn.Type())))))
			}
		}
		return TupleV{w, e}
	})
	pure("(*os/exec.Cmd).StdinPipe")
	reg("(*os/exec.Cmd).Start", "starts the process (may fail); the command's public configuration is not changed", func(fr *Frame, in ssa.Instruction, st *State, args []Value, rt types.Type) Value {
		if g, ok := st.Ghost["spawned"]; ok {
			st.Ghost["spawned"] = ghostInc(g)
		}
		return freshErr(fr.p, "start.err")
	})
	libEffTable["(*os/exec.Cmd).Start"] = func(e *effects) { e.ghost["spawned"] = true }
	reg("(*os/exec.Cmd).Wait", "waits for the process", func(fr *Frame, in ssa.Instruction, st *State, args []Value, rt types.Type) Value {
		return freshErr(fr.p, "wait.err")
	})
	pure("(*os/exec.Cmd).Wait")

	reg("time.Since", "now - t, saturated (an arbitrary duration here)", func(fr *Frame, in ssa.Instruction, st *State, args []Value, rt types.Type) Value {
		return Scalar{B.Fresh("since", SBV(64))}
	})
	pure("time.Since")
	for _, k := range []string{"iface:fs.FileInfo.ModTime", "iface:os.FileInfo.ModTime"} {
		reg(k, "the modification time observed by Stat (a function of the info)", func(fr *Frame, in ssa.Instruction, st *State, args []Value, rt types.Type) Value {
			B.DeclareFun("fileinfo.modtime", []string{SRef}, STime)
			return Scalar{B.App("fileinfo.modtime", STime, args[0].(IfaceV).Ref)}
		})
		pure(k)
	}
	for _, k := range []string{"log.SetPrefix", "log.SetFlags", "log.SetOutput"} {
		reg(k, "configures the standard logger; no effect on program state", func(fr *Frame, in ssa.Instruction, st *State, args []Value, rt types.Type) Value { return nil })
		pure(k)
	}
	reg("(*sync.WaitGroup).Add", "no effect on the modelled state", func(fr *Frame, in ssa.Instruction, st *State, args []Value, rt types.Type) Value { return nil })
	pure("(*sync.WaitGroup).Add")
	reg("(*sync.WaitGroup).Done", "no effect on the modelled state", func(fr *Frame, in ssa.Instruction, st *State, args []Value, rt types.Type) Value { return nil })
	pure("(*sync.WaitGroup).Done")
	reg("(*sync.WaitGroup).Wait", "no effect on the modelled state", func(fr *Frame, in ssa.Instruction, st *State, args []Value, rt types.Type) Value { return nil })
	pure("(*sync.WaitGroup).Wait")
}
