package main

// Maps and range iteration.

import (
	"go/types"

	"golang.org/x/tools/go/ssa"
)

type rangeState struct {
	cell  *Cell // holds Scalar{visited-array} for maps, Scalar{index} for strings
	mapv  MapV
	isMap bool
	str   *Term
}

func keySorts(kt types.Type) []string {
	var out []string
	for _, l := range leavesOf(kt) {
		out = append(out, l.Sort)
	}
	return out
}

func nestedArr(ks []string, elem string) string {
	s := elem
	for i := len(ks) - 1; i >= 0; i-- {
		s = SArr(ks[i], s)
	}
	return s
}

func selN(a *Term, ks []*Term) *Term {
	for _, k := range ks {
		a = Select(a, k)
	}
	return a
}

func storeN(a *Term, ks []*Term, v *Term) *Term {
	if len(ks) == 1 {
		return Store(a, ks[0], v)
	}
	return Store(a, ks[0], storeN(Select(a, ks[0]), ks[1:], v))
}

func mapDomKey(m MapV) string { return "mapdom:" + typeKey(m.K) + "->" + typeKey(m.V) }
func mapValKey(m MapV, lp string) string {
	return "mapval:" + typeKey(m.K) + "->" + typeKey(m.V) + lp
}

func (p *Proof) mapDom(st *State, m MapV) *Term {
	ks := keySorts(m.K)
	c := p.heapCell(st, mapDomKey(m), SArr(SRef, nestedArr(ks, SBool)))
	return Select(c, m.Ref)
}

func (p *Proof) keyTerms(st *State, kt types.Type, k Value) []*Term {
	return flatten(kt, k, func(x PtrV) *Term { return p.opaquePtr(st, x) })
}

func (p *Proof) mapHas(st *State, m MapV, k Value) *Term {
	return selN(p.mapDom(st, m), p.keyTerms(st, m.K, k))
}

func (p *Proof) mapGet(st *State, m MapV, k Value) Value {
	ks := keySorts(m.K)
	kts := p.keyTerms(st, m.K, k)
	return build(m.V, func(l leafSpec) *Term {
		c := p.heapCell(st, mapValKey(m, l.Path), SArr(SRef, nestedArr(ks, l.Sort)))
		return selN(Select(c, m.Ref), kts)
	})
}

func (p *Proof) mapSet(st *State, m MapV, k Value, v Value) {
	ks := keySorts(m.K)
	kts := p.keyTerms(st, m.K, k)
	dk := mapDomKey(m)
	dc := p.heapCell(st, dk, SArr(SRef, nestedArr(ks, SBool)))
	st.Heap[dk] = Store(dc, m.Ref, storeN(Select(dc, m.Ref), kts, True()))
	ls := leavesOf(m.V)
	ts := flatten(m.V, v, func(x PtrV) *Term { return p.opaquePtr(st, x) })
	for i, l := range ls {
		vk := mapValKey(m, l.Path)
		vc := p.heapCell(st, vk, SArr(SRef, nestedArr(ks, l.Sort)))
		st.Heap[vk] = Store(vc, m.Ref, storeN(Select(vc, m.Ref), kts, ts[i]))
	}
}

func (p *Proof) mapVersion(st *State, m MapV) *Term {
	// a term that changes whenever the domain changes: hash of the domain array is not expressible;
	// use an uninterpreted function of the domain array itself.
	d := p.mapDom(st, m)
	fn := B.DeclareFun("map.ver."+sanitize(typeKey(m.K)), []string{d.Sort}, SBV(64))
	return B.App(fn, SBV(64), d)
}

func (fr *Frame) makeMap(x *ssa.MakeMap, st *State) Value {
	p := fr.p
	mt := x.Type().Underlying().(*types.Map)
	ref := p.allocRef(st)
	m := MapV{Ref: ref, K: mt.Key(), V: mt.Elem()}
	ks := keySorts(m.K)
	dk := mapDomKey(m)
	dc := p.heapCell(st, dk, SArr(SRef, nestedArr(ks, SBool)))
	st.Heap[dk] = Store(dc, ref, constNested(ks, SBool, False()))
	return m
}

func constNested(ks []string, elem string, v *Term) *Term {
	t := v
	srt := elem
	for i := len(ks) - 1; i >= 0; i-- {
		srt = SArr(ks[i], srt)
		t = ConstArray(srt, t)
	}
	return t
}

func (fr *Frame) mapUpdate(x *ssa.MapUpdate, st *State) {
	p := fr.p
	m, ok := fr.val(x.Map).(MapV)
	if !ok {
		panic("unsupported MapUpdate base")
	}
	p.oblige(fr.siteName(x, "nilmap"), "nilmap", x.Pos(), st.Guard, Neq(m.Ref, BVInt(0, 64)), "assignment to entry in nil map")
	mt := x.Map.Type().Underlying().(*types.Map)
	p.mapSet(st, m, coerceNil(fr.val(x.Key), mt.Key()), coerceNil(fr.val(x.Value), mt.Elem()))
}

func (fr *Frame) mapDelete(in ssa.Instruction, args []Value, st *State) {
	p := fr.p
	m, ok := args[0].(MapV)
	if !ok {
		panic("unsupported delete base")
	}
	ks := keySorts(m.K)
	kts := p.keyTerms(st, m.K, args[1])
	dk := mapDomKey(m)
	dc := p.heapCell(st, dk, SArr(SRef, nestedArr(ks, SBool)))
	st.Heap[dk] = Store(dc, m.Ref, storeN(Select(dc, m.Ref), kts, False()))
}

func (fr *Frame) mapLookup(x *ssa.Lookup, st *State) Value {
	p := fr.p
	m, ok := fr.val(x.X).(MapV)
	if !ok {
		panic("unsupported Lookup base")
	}
	k := fr.val(x.Index)
	has := p.mapHas(st, m, k)
	// lookups in a nil map yield the zero value
	has = And(Neq(m.Ref, BVInt(0, 64)), has)
	v := p.iteValue(st, has, p.mapGet(st, m, k), zeroValue(m.V))
	if x.CommaOk {
		return TupleV{v, Scalar{has}}
	}
	return v
}

func (fr *Frame) mapEffects(t types.Type, e *effects) {
	mt, ok := t.Underlying().(*types.Map)
	if !ok {
		e.allHeap = true
		return
	}
	m := MapV{K: mt.Key(), V: mt.Elem()}
	ks := keySorts(m.K)
	e.heap[mapDomKey(m)] = true
	e.heapSort[mapDomKey(m)] = SArr(SRef, nestedArr(ks, SBool))
	for _, l := range safeLeaves(m.V) {
		e.heap[mapValKey(m, l.Path)] = true
		e.heapSort[mapValKey(m, l.Path)] = SArr(SRef, nestedArr(ks, l.Sort))
	}
}

// ---- range

func (fr *Frame) rangeInit(x *ssa.Range, st *State) Value {
	p := fr.p
	rs := &rangeState{}
	switch v := fr.val(x.X).(type) {
	case MapV:
		rs.isMap = true
		rs.mapv = v
		ks := keySorts(v.K)
		rs.cell = NewCell("range$visited", nil)
		st.Locals[rs.cell] = Scalar{constNested(ks, SBool, False())}
	case Scalar:
		if v.T.Sort != SStr {
			panic("unsupported range operand")
		}
		rs.str = v.T
		rs.cell = NewCell("range$index", types.Typ[types.Int])
		st.Locals[rs.cell] = Scalar{BVInt(0, 64)}
	default:
		panic("unsupported range operand")
	}
	fr.rangeIt[x] = rs
	_ = p
	return Scalar{B.Fresh("iter", SRef)}
}

func (fr *Frame) rangeNext(x *ssa.Next, st *State) Value {
	p := fr.p
	rs := fr.rangeIt[x.Iter]
	if rs == nil {
		panic("unsupported Next without Range")
	}
	if rs.isMap {
		m := rs.mapv
		visited := st.Locals[rs.cell].(Scalar).T
		k := freshValue(m.K, "rk")
		p.assume(True(), p.typeInv(st, m.K, k))
		kts := p.keyTerms(st, m.K, k)
		ok := B.Fresh("rok", SBool)
		dom := p.mapDom(st, m)
		p.assume(st.Guard, Implies(ok, And(Neq(m.Ref, BVInt(0, 64)), selN(dom, kts), Not(selN(visited, kts)))))
		// exhausted: every key in the domain has been visited
		var bound []*Term
		for i, s := range keySorts(m.K) {
			bound = append(bound, B.BoundVar("q"+string(rune('a'+i)), s))
		}
		p.assume(st.Guard, Implies(Not(ok), Or(Eq(m.Ref, BVInt(0, 64)), Forall(bound, Implies(selN(dom, bound), selN(visited, bound))))))
		st.Locals[rs.cell] = Scalar{Ite(ok, storeN(visited, kts, True()), visited)}
		v := p.mapGet(st, m, k)
		return TupleV{Scalar{ok}, k, v}
	}
	// string: index advances by 1..4 bytes; rune value uninterpreted
	idx := st.Locals[rs.cell].(Scalar).T
	n := strLen(rs.str)
	ok := BVSlt(idx, n)
	step := B.Fresh("runelen", SBV(64))
	p.assume(True(), And(BVSle(BVInt(1, 64), step), BVSle(step, BVInt(4, 64))))
	p.assume(And(st.Guard, ok), BVSle(BVAdd(idx, step), n))
	r := B.Fresh("rune", SBV(32))
	st.Locals[rs.cell] = Scalar{Ite(ok, BVAdd(idx, step), idx)}
	return TupleV{Scalar{ok}, Scalar{idx}, Scalar{r}}
}
