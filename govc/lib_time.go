package main

// Assumed contracts of package time. time.Time is an uninterpreted sort; tm.unix(t) is its instant in
// nanoseconds as a mathematical integer. Calendar functions (Date, Weekday, Format, Parse) are
// uninterpreted with the axioms stated in DESIGN.md section 6 (validated against the real library by
// the thorough tier's bounded harness).

import (
	"go/types"
	"math/big"

	"golang.org/x/tools/go/ssa"
)

func tmUnix(t *Term) *Term {
	B.DeclareFun("tm.unix", []string{STime}, SInt)
	return B.App("tm.unix", SInt, t)
}

func timeZero() *Term { return B.Const("time.zero", STime) }

// tmUTC(t): the time value carries the UTC location (calendar fields are read in UTC).
func tmUTC(t *Term) *Term {
	B.DeclareFun("tm.utc", []string{STime}, SBool)
	return B.App("tm.utc", SBool, t)
}

// zero time is year 1: far before any real instant
var zeroUnixNs = new(big.Int).Mul(big.NewInt(-62135596800), big.NewInt(1000000000))

func (p *Proof) timeFacts(t *Term) {
	if p.strSeen[-t.id-1] {
		return
	}
	p.strSeen[-t.id-1] = true
	// extensionality of instants for ==/IsZero on values produced by this model
	p.assume(True(), Eq(tmUnix(timeZero()), IntConst(zeroUnixNs)))
}

func intOfDuration(d *Term) *Term { return BVToInt(d, true) }

const nsPerDay = 24 * 3600 * 1000000000

func init() {
	tv := func(v Value) *Term { return v.(Scalar).T }
	pure := func(name string) { libEffTable[name] = noEffect }

	reg("time.Now", "returns an arbitrary instant after the zero time", func(fr *Frame, in ssa.Instruction, st *State, args []Value, rt types.Type) Value {
		t := B.Fresh("now", STime)
		fr.p.timeFacts(t)
		fr.p.assume(True(), IntLt(IntConst(big.NewInt(0)), tmUnix(t)))
		return Scalar{t}
	})
	pure("time.Now")
	reg("(time.Time).UTC", "same instant, location UTC", func(fr *Frame, in ssa.Instruction, st *State, args []Value, rt types.Type) Value {
		B.DeclareFun("tm.toutc", []string{STime}, STime)
		r := B.App("tm.toutc", STime, tv(args[0]))
		fr.p.timeFacts(r)
		fr.p.assume(True(), And(Eq(tmUnix(r), tmUnix(tv(args[0]))), tmUTC(r)))
		return Scalar{r}
	})
	pure("(time.Time).UTC")
	reg("(time.Time).IsZero", "t is the zero instant", func(fr *Frame, in ssa.Instruction, st *State, args []Value, rt types.Type) Value {
		fr.p.timeFacts(tv(args[0]))
		return Scalar{Eq(tmUnix(tv(args[0])), IntConst(zeroUnixNs))}
	})
	pure("(time.Time).IsZero")
	cmp := func(name string, f func(a, b *Term) *Term) {
		reg("(time.Time)."+name, "order of instants", func(fr *Frame, in ssa.Instruction, st *State, args []Value, rt types.Type) Value {
			fr.p.timeFacts(tv(args[0]))
			return Scalar{f(tmUnix(tv(args[0])), tmUnix(tv(args[1])))}
		})
		pure("(time.Time)." + name)
	}
	cmp("Before", func(a, b *Term) *Term { return IntLt(a, b) })
	cmp("After", func(a, b *Term) *Term { return IntLt(b, a) })
	cmp("Equal", func(a, b *Term) *Term { return Eq(a, b) })
	reg("(time.Time).Sub", "t-u in nanoseconds, saturated to the int64 range", func(fr *Frame, in ssa.Instruction, st *State, args []Value, rt types.Type) Value {
		p := fr.p
		d := B.Fresh("dur", SBV(64))
		diff := IntSub(tmUnix(tv(args[0])), tmUnix(tv(args[1])))
		maxD := IntConst(new(big.Int).SetInt64(1<<63 - 1))
		minD := IntConst(new(big.Int).SetInt64(-1 << 63))
		di := intOfDuration(d)
		p.assume(True(), Eq(di, Ite(IntLt(maxD, diff), maxD, Ite(IntLt(diff, minD), minD, diff))))
		return Scalar{d}
	})
	pure("(time.Time).Sub")
	reg("(time.Time).Add", "t+d", func(fr *Frame, in ssa.Instruction, st *State, args []Value, rt types.Type) Value {
		p := fr.p
		r := B.Fresh("tadd", STime)
		p.assume(True(), Eq(tmUnix(r), IntAdd(tmUnix(tv(args[0])), intOfDuration(tv(args[1])))))
		p.assume(True(), Eq(tmUTC(r), tmUTC(tv(args[0]))))
		return Scalar{r}
	})
	pure("(time.Time).Add")
	reg("time.Until", "t - now", func(fr *Frame, in ssa.Instruction, st *State, args []Value, rt types.Type) Value {
		return Scalar{B.Fresh("until", SBV(64))}
	})
	pure("time.Until")
	reg("time.AfterFunc", "the callback never runs inside a proof (timer goroutine)", func(fr *Frame, in ssa.Instruction, st *State, args []Value, rt types.Type) Value {
		fr.p.note("time.AfterFunc callback is not verified here (it is a separate call of its function)")
		return fr.freshResult(st, rt, "timer")
	})
	pure("time.AfterFunc")

	// calendar
	dateFn := func(y, m, d *Term) *Term {
		B.DeclareFun("tm.date", []string{SBV(64), SBV(64), SBV(64)}, STime)
		return B.App("tm.date", STime, y, m, d)
	}
	reg("(time.Time).Date", "y,m,d; if t carries the UTC location: Date(y,m,d,0,0,0,0,UTC) <= t < +24h (calendar assumed)", func(fr *Frame, in ssa.Instruction, st *State, args []Value, rt types.Type) Value {
		p := fr.p
		t := tv(args[0])
		B.DeclareFun("tm.year", []string{STime}, SBV(64))
		B.DeclareFun("tm.month", []string{STime}, SBV(64))
		B.DeclareFun("tm.day", []string{STime}, SBV(64))
		y, m, d := B.App("tm.year", SBV(64), t), B.App("tm.month", SBV(64), t), B.App("tm.day", SBV(64), t)
		mid := dateFn(y, m, d)
		day := IntConst(big.NewInt(nsPerDay))
		// the fields are those of the UTC calendar only if t carries the UTC location; for any other
		// location they belong to a day that may differ from the UTC day
		p.assume(True(), Implies(tmUTC(t), And(IntLe(tmUnix(mid), tmUnix(t)), IntLt(tmUnix(t), IntAdd(tmUnix(mid), day)))))
		p.assume(True(), And(BVSle(BVInt(1, 64), m), BVSle(m, BVInt(12, 64)), BVSle(BVInt(1, 64), d), BVSle(d, BVInt(31, 64))))
		p.assume(True(), And(BVSle(BVInt(0, 64), y), BVSle(y, BVInt(1<<40, 64))))
		return TupleV{Scalar{y}, Scalar{m}, Scalar{d}}
	})
	pure("(time.Time).Date")
	reg("time.Date", "for h=m=s=ns=0 and UTC: the midnight of (y,m,d), days normalised: Date(y,m,d+k) == Date(y,m,d)+k*24h for 0<=k<=7 (assumed, validated bounded); other arguments: arbitrary instant", func(fr *Frame, in ssa.Instruction, st *State, args []Value, rt types.Type) Value {
		p := fr.p
		zero := func(v Value) bool { t := tv(v); return t.IsConst() && t.ConstVal().Sign() == 0 }
		if !(zero(args[3]) && zero(args[4]) && zero(args[5]) && zero(args[6])) {
			t := B.Fresh("date", STime)
			return Scalar{t}
		}
		y, m, d := tv(args[0]), tv(args[1]), tv(args[2])
		r := dateFn(y, m, d)
		if locIsUTC(in) {
			p.assume(True(), tmUTC(r))
		}
		// normalisation axiom instance: if d is syntactically base+k, relate to the base day
		if d.Op == "bvadd" && len(d.Args) == 2 {
			base, k := d.Args[0], d.Args[1]
			rb := dateFn(y, m, base)
			cond := And(BVSle(BVInt(0, 64), k), BVSle(k, BVInt(7, 64)))
			p.assume(True(), Implies(cond, Eq(tmUnix(r), IntAdd(tmUnix(rb), IntMul(BVToInt(k, true), IntConst(big.NewInt(nsPerDay)))))))
			p.assume(True(), Implies(cond, Eq(weekdayFn(r), BVSRem(BVAdd(weekdayFn(rb), k), BVInt(7, 64)))))
		}
		p.assume(True(), And(BVSle(BVInt(0, 64), weekdayFn(r)), BVSle(weekdayFn(r), BVInt(6, 64))))
		return Scalar{r}
	})
	pure("time.Date")
	reg("(time.Time).Weekday", "0..6; advances by one per 24h at midnights (assumed)", func(fr *Frame, in ssa.Instruction, st *State, args []Value, rt types.Type) Value {
		w := weekdayFn(tv(args[0]))
		fr.p.assume(True(), And(BVSle(BVInt(0, 64), w), BVSle(w, BVInt(6, 64))))
		return Scalar{w}
	})
	pure("(time.Time).Weekday")

	reg("(time.Time).Format", "a function of (layout, instant); DateOnly renders 10 bytes; Parse(layout, Format(layout,t)) succeeds and returns t truncated to the layout's precision (assumed, validated bounded)", func(fr *Frame, in ssa.Instruction, st *State, args []Value, rt types.Type) Value {
		p := fr.p
		t, layout := tv(args[0]), tv(args[1])
		B.DeclareFun("tm.format", []string{SStr, STime}, SStr)
		s := B.App("tm.format", SStr, layout, t)
		if !p.strSeen[s.id] {
			p.strSeen[s.id] = true
			p.assume(True(), And(BVSle(BVInt(0, 64), strLen(s)), BVSle(strLen(s), BVInt(64, 64))))
			pt, ok := tmParse(layout, s)
			p.assume(True(), ok)
			switch layout {
			case strLit("2006-01-02"):
				p.assume(True(), Eq(strLen(s), BVInt(10, 64)))
				day := IntConst(big.NewInt(nsPerDay))
				p.assume(True(), Implies(tmUTC(t), And(IntLe(tmUnix(pt), tmUnix(t)), IntLt(tmUnix(t), IntAdd(tmUnix(pt), day)))))
			case strLit("2006-01-02T15:04:05Z07:00"):
				sec := IntConst(big.NewInt(1000000000))
				p.assume(True(), And(IntLe(tmUnix(pt), tmUnix(t)), IntLt(tmUnix(t), IntAdd(tmUnix(pt), sec))))
			}
		}
		return Scalar{s}
	})
	pure("(time.Time).Format")
	reg("time.Parse", "err==nil <=> tm.parseok(layout,s); the result is a function of (layout,s); failure returns the zero time", func(fr *Frame, in ssa.Instruction, st *State, args []Value, rt types.Type) Value {
		p := fr.p
		layout, s := tv(args[0]), tv(args[1])
		pt, ok := tmParse(layout, s)
		e := B.Fresh("parse.err", SRef)
		p.assume(True(), Eq(Eq(e, BVInt(0, 64)), ok))
		p.timeFacts(pt)
		res := Ite(ok, pt, timeZero())
		if layout == strLit("2006-01-02") {
			p.assume(True(), Implies(ok, Eq(strLen(s), BVInt(10, 64))))
			// a layout without a zone parses as UTC
			p.assume(True(), Implies(ok, tmUTC(pt)))
		}
		p.assume(True(), Implies(ok, IntLt(IntConst(zeroUnixNs), tmUnix(pt))))
		return TupleV{Scalar{res}, IfaceV{Ref: e}}
	})
	pure("time.Parse")
}

func weekdayFn(t *Term) *Term {
	B.DeclareFun("tm.weekday", []string{STime}, SBV(64))
	return B.App("tm.weekday", SBV(64), t)
}

func tmParse(layout, s *Term) (*Term, *Term) {
	B.DeclareFun("tm.parse", []string{SStr, SStr}, STime)
	B.DeclareFun("tm.parseok", []string{SStr, SStr}, SBool)
	return B.App("tm.parse", STime, layout, s), B.App("tm.parseok", SBool, layout, s)
}

// locIsUTC: the call passes the package variable time.UTC as its last argument (or is evaluated
// inside a contract, where time.UTC is the only location written).
func locIsUTC(in ssa.Instruction) bool {
	if in == nil {
		return true
	}
	ci, ok := in.(ssa.CallInstruction)
	if !ok {
		return false
	}
	a := ci.Common().Args
	if len(a) == 0 {
		return false
	}
	if u, ok := a[len(a)-1].(*ssa.UnOp); ok {
		if g, ok := u.X.(*ssa.Global); ok && g.Name() == "UTC" && g.Pkg != nil && g.Pkg.Pkg.Path() == "time" {
			return true
		}
	}
	return false
}
