package main

// R1 direct replay: build an in-package Go test from the solver's model and run the real function.
// The test is injected with `go test -overlay` (nothing is written into /repo).

import (
	"bytes"
	"context"
	"encoding/json"
	"fmt"
	"go/types"
	"math/big"
	"os"
	"os/exec"
	"path/filepath"
	"sort"
	"strconv"
	"strings"
	"time"

	"golang.org/x/tools/go/ssa"
)

type concreteModel struct {
	vals  map[int]string              // term id -> raw value
	heap  map[string]map[string]string // heap key -> ref value (hex) -> value
	elems map[string]map[string]map[string]string
	strs  map[int]map[string]string // string term id -> idx -> byte ; "len" -> len
}

func parseBV(s string) (*big.Int, bool) {
	s = strings.TrimSpace(s)
	switch {
	case strings.HasPrefix(s, "#x"):
		v, ok := new(big.Int).SetString(s[2:], 16)
		return v, ok
	case strings.HasPrefix(s, "#b"):
		v, ok := new(big.Int).SetString(s[2:], 2)
		return v, ok
	case strings.HasPrefix(s, "(_ bv"):
		f := strings.Fields(s[5:])
		v, ok := new(big.Int).SetString(f[0], 10)
		return v, ok
	}
	return nil, false
}

func (cm *concreteModel) num(t *Term) (*big.Int, bool) {
	if t.IsConst() {
		return t.ConstVal(), true
	}
	if s, ok := cm.vals[t.id]; ok {
		return parseBV(s)
	}
	return nil, false
}

func buildModel(o *Obligation, raw map[int]string) *concreteModel {
	cm := &concreteModel{vals: raw, heap: map[string]map[string]string{}, elems: map[string]map[string]map[string]string{}, strs: map[int]map[string]string{}}
	for _, q := range o.Queries {
		v, ok := raw[q.id]
		if !ok {
			continue
		}
		switch {
		case q.Op == "select" && len(q.Args) == 2:
			base, idx := q.Args[0], q.Args[1]
			if len(base.Args) == 0 && strings.HasPrefix(base.Op, "H.") {
				if r, ok := cm.num(idx); ok {
					k := base.Op[2:]
					if cm.heap[k] == nil {
						cm.heap[k] = map[string]string{}
					}
					cm.heap[k][r.Text(16)] = v
				}
			} else if base.Op == "select" && len(base.Args[0].Args) == 0 && strings.HasPrefix(base.Args[0].Op, "H.elems") {
				r, ok1 := cm.num(base.Args[1])
				i, ok2 := cm.num(idx)
				if ok1 && ok2 {
					k := base.Args[0].Op[2:]
					if cm.elems[k] == nil {
						cm.elems[k] = map[string]map[string]string{}
					}
					if cm.elems[k][r.Text(16)] == nil {
						cm.elems[k][r.Text(16)] = map[string]string{}
					}
					cm.elems[k][r.Text(16)][i.Text(16)] = v
				}
			}
		case q.Op == "gs.len" && len(q.Args) == 1:
			if cm.strs[q.Args[0].id] == nil {
				cm.strs[q.Args[0].id] = map[string]string{}
			}
			cm.strs[q.Args[0].id]["len"] = v
		case q.Op == "gs.at" && len(q.Args) == 2:
			if i, ok := cm.num(q.Args[1]); ok {
				if cm.strs[q.Args[0].id] == nil {
					cm.strs[q.Args[0].id] = map[string]string{}
				}
				cm.strs[q.Args[0].id][i.Text(16)] = v
			}
		}
	}
	return cm
}

type codegen struct {
	cm    *concreteModel
	pkg   *types.Package
	sb    strings.Builder
	n     int
	skip  string
	objs  map[string]string // ref value -> variable
	limit int64
}

func (g *codegen) qual(p *types.Package) string {
	if p == g.pkg {
		return ""
	}
	return p.Name()
}

func (g *codegen) typeStr(t types.Type) string { return types.TypeString(t, g.qual) }

func (g *codegen) fresh(prefix string) string {
	g.n++
	return fmt.Sprintf("%s%d", prefix, g.n)
}

func intLit(v *big.Int, t types.Type) string {
	w, signed, _ := intInfo(t)
	if signed {
		v = signedVal(v, w)
	}
	return v.String()
}

// strValue builds a Go string literal for a string term from the model.
func (g *codegen) strValue(term *Term) string {
	m := g.cm.strs[term.id]
	n := int64(0)
	if m != nil {
		if v, ok := parseBV(m["len"]); ok {
			n = v.Int64()
		}
	}
	if n > g.limit {
		g.skip = fmt.Sprintf("model needs a string of %d bytes", n)
		return `""`
	}
	b := bytes.Repeat([]byte{'a'}, int(n))
	special := false
	for k, v := range m {
		if k == "len" {
			continue
		}
		i, _ := new(big.Int).SetString(k, 16)
		bv, ok := parseBV(v)
		if i != nil && ok && i.IsInt64() && i.Int64() >= 0 && i.Int64() < n {
			b[i.Int64()] = byte(bv.Int64())
			special = true
		}
	}
	if !special && n > 64 {
		return fmt.Sprintf("strings.Repeat(\"a\", %d)", n)
	}
	return strconv.Quote(string(b))
}

// value returns a Go expression for v (the symbolic entry value of a parameter) under the model.
func (g *codegen) value(v Value, t types.Type) string {
	switch x := v.(type) {
	case Scalar:
		switch {
		case x.T.Sort == SStr:
			return g.typeStr(t) + "(" + g.strValue(x.T) + ")"
		case x.T.Sort == SBool:
			if g.cm.vals[x.T.id] == "true" {
				return "true"
			}
			return "false"
		case bvWidth(x.T.Sort) > 0:
			if _, _, ok := intInfo(t); ok {
				n, _ := g.cm.num(x.T)
				if n == nil {
					n = big.NewInt(0)
				}
				return g.typeStr(t) + "(" + intLit(n, t) + ")"
			}
		}
	case SliceV:
		return g.sliceValue(x.Ref, x.Off, x.Len, x.Elem, t)
	case PtrV:
		if x.Kind == KObj {
			return g.ptrValue(x.Ref, x.Elem)
		}
	case StructV:
		u := t.Underlying().(*types.Struct)
		var fs []string
		for i, f := range x.F {
			if !u.Field(i).Exported() && u.Field(i).Pkg() != g.pkg {
				continue
			}
			fs = append(fs, u.Field(i).Name()+": "+g.value(f, u.Field(i).Type()))
		}
		return g.typeStr(t) + "{" + strings.Join(fs, ", ") + "}"
	}
	return "*new(" + g.typeStr(t) + ")"
}

func (g *codegen) sliceValue(ref, off, ln *Term, elem types.Type, t types.Type) string {
	n, _ := g.cm.num(ln)
	r, _ := g.cm.num(ref)
	o, _ := g.cm.num(off)
	return g.sliceFromModel(r, o, n, elem, t)
}

func (g *codegen) sliceFromModel(r, o, n *big.Int, elem types.Type, t types.Type) string {
	if n == nil || r == nil || r.Sign() == 0 {
		return "nil"
	}
	if !n.IsInt64() || n.Int64() > g.limit {
		g.skip = fmt.Sprintf("model needs a slice of %s elements", n.String())
		return "nil"
	}
	if o == nil {
		o = big.NewInt(0)
	}
	name := g.fresh("s")
	fmt.Fprintf(&g.sb, "\t%s := make(%s, %d)\n", name, g.typeStr(t), n.Int64())
	if isByte(elem) || bvWidthOfType(elem) > 0 {
		em := g.cm.elems["elems_"+sanitize(typeKey(elem))]
		if em == nil {
			em = g.cm.elems[sanitize("elems:"+typeKey(elem))]
		}
		if em != nil {
			cells := em[r.Text(16)]
			var ks []string
			for k := range cells {
				ks = append(ks, k)
			}
			sort.Strings(ks)
			for _, k := range ks {
				i, _ := new(big.Int).SetString(k, 16)
				rel := new(big.Int).Sub(i, o)
				bv, ok := parseBV(cells[k])
				if ok && rel.Sign() >= 0 && rel.Cmp(n) < 0 {
					fmt.Fprintf(&g.sb, "\t%s[%d] = %s\n", name, rel.Int64(), intLit(bv, elem))
				}
			}
		}
	}
	return name
}

func bvWidthOfType(t types.Type) int {
	w, _, ok := intInfo(t)
	if ok {
		return w
	}
	return 0
}

func (g *codegen) heapVal(key string, ref *big.Int) (string, bool) {
	m := g.cm.heap[sanitize(key)]
	if m == nil {
		return "", false
	}
	v, ok := m[ref.Text(16)]
	return v, ok
}

func (g *codegen) ptrValue(ref *Term, elem types.Type) string {
	r, _ := g.cm.num(ref)
	return g.objAt(r, elem)
}

func (g *codegen) objAt(r *big.Int, elem types.Type) string {
	if r == nil || r.Sign() == 0 {
		return "nil"
	}
	key := typeKey(elem) + "@" + r.Text(16)
	if v, ok := g.objs[key]; ok {
		return v
	}
	st, ok := elem.Underlying().(*types.Struct)
	if !ok {
		name := g.fresh("p")
		fmt.Fprintf(&g.sb, "\t%s := new(%s)\n", name, g.typeStr(elem))
		if v, ok := g.heapVal(objKey(elem, ""), r); ok {
			if bv, ok := parseBV(v); ok {
				fmt.Fprintf(&g.sb, "\t*%s = %s(%s)\n", name, g.typeStr(elem), intLit(bv, elem))
			}
		}
		return name
	}
	name := g.fresh("o")
	g.objs[key] = name
	fmt.Fprintf(&g.sb, "\t%s := new(%s)\n", name, g.typeStr(elem))
	g.fillStruct(name, elem, elem, "", r, st, 0)
	return name
}

func (g *codegen) fillStruct(expr string, root types.Type, t types.Type, path string, r *big.Int, st *types.Struct, depth int) {
	if depth > 4 {
		return
	}
	for i := 0; i < st.NumFields(); i++ {
		f := st.Field(i)
		if f.Name() == "_" || (!f.Exported() && f.Pkg() != g.pkg) {
			continue
		}
		fp := path + "." + fieldName(st, i)
		fe := expr + "." + f.Name()
		ft := f.Type()
		if isTimeType(ft) {
			continue
		}
		switch u := ft.Underlying().(type) {
		case *types.Basic:
			v, ok := g.heapVal(objKey(root, fp), r)
			if !ok {
				continue
			}
			switch {
			case isString(ft), isFloat(ft):
				// string fields: content unknown to the model; leave zero
			case isBool(ft):
				fmt.Fprintf(&g.sb, "\t%s = %s\n", fe, v)
			default:
				if bv, ok := parseBV(v); ok {
					if _, _, isInt := intInfo(ft); isInt {
						fmt.Fprintf(&g.sb, "\t%s = %s(%s)\n", fe, g.typeStr(ft), intLit(bv, ft))
					}
				}
			}
		case *types.Pointer:
			v, ok := g.heapVal(objKey(root, fp), r)
			if !ok {
				continue
			}
			if bv, ok := parseBV(v); ok && bv.Sign() != 0 {
				if stdOpaque(u.Elem()) {
					continue
				}
				sub := g.objAt(bv, u.Elem())
				fmt.Fprintf(&g.sb, "\t%s = %s\n", fe, sub)
			}
		case *types.Slice:
			rv, ok1 := g.heapVal(objKey(root, fp+"#ref"), r)
			lv, ok2 := g.heapVal(objKey(root, fp+"#len"), r)
			ov, _ := g.heapVal(objKey(root, fp+"#off"), r)
			if !ok1 && !ok2 {
				continue
			}
			rr, _ := parseBV(rv)
			ll, _ := parseBV(lv)
			oo, _ := parseBV(ov)
			if rr == nil && ll != nil && ll.Sign() > 0 {
				rr = big.NewInt(1)
			}
			sv := g.sliceFromModel(rr, oo, ll, u.Elem(), ft)
			fmt.Fprintf(&g.sb, "\t%s = %s\n", fe, sv)
		case *types.Struct:
			g.fillStruct(fe, root, ft, fp, r, u, depth+1)
		}
	}
}

// replayDirect generates and runs the replay test. Returns true if the real code misbehaves
// the way the failed obligation says (panic for safety obligations).
func (cr *checkRun) replayDirect(r *ProofResult, o *Obligation, rf *ReplayFile, dir, base string) bool {
	p := r.proof
	if p == nil || p.fn == nil || o.RawModel == nil {
		return false
	}
	fn := p.fn
	if fn.Pkg == nil && fn.Origin() != nil {
		// generic instance: call through the origin with explicit instantiation is not generated
	}
	pkg := pkgOfFunc(fn)
	if pkg == nil {
		return false
	}
	// A direct replay calls the function on inputs rebuilt from the model. That is only meaningful if
	// every input is legal: a function whose contract has preconditions over its arguments (object
	// invariants such as uploaderOK(u)) cannot be replayed this way - the rebuilt objects would be
	// partial and any panic they cause would be blamed on the obligation. Preconditions that only
	// mention ghost state or the 4 GiB scoping bound are fine.
	if c := p.con; c != nil {
		for _, rq := range c.Requires {
			if strings.Contains(rq.Src, "$") && !strings.ContainsAny(strings.ReplaceAll(rq.Src, "$", ""), "(") {
				continue
			}
			if strings.Contains(rq.Src, "< 1<<32") {
				continue
			}
			rf.Note = "no direct replay: the function has preconditions over its arguments (" + rq.Src + "); the model is recorded"
			rf.ReplayKind = "none"
			return false
		}
	}
	switch o.Kind {
	case "bounds", "slice", "nil", "div", "panic", "makeslice", "assertT", "nilmap", "shift":
	default:
		rf.Note = "obligation kind " + o.Kind + " has no executable oracle in the direct replay; the model is recorded"
		rf.ReplayKind = "none"
		return false
	}
	g := &codegen{cm: buildModel(o, o.RawModel), pkg: pkg, objs: map[string]string{}, limit: 64 << 20}
	var args []string
	for i, prm := range fn.Params {
		v := p.params[prm.Name()]
		if v == nil && i < len(fn.Params) {
			return false
		}
		args = append(args, g.value(v, prm.Type()))
	}
	if g.skip != "" {
		rf.Note = "replay skipped: " + g.skip
		return false
	}
	if p.privateBytes || true {
		// nothing to prepare: ghosts have no run-time counterpart
	}
	var call string
	if fn.Signature.Recv() != nil {
		call = fmt.Sprintf("(%s).%s(%s)", args[0], fn.Name(), strings.Join(args[1:], ", "))
	} else {
		name := fn.Name()
		if fn.Origin() != nil {
			name = fn.Origin().Name()
		}
		call = fmt.Sprintf("%s(%s)", name, strings.Join(args, ", "))
	}
	results := ""
	if n := fn.Signature.Results().Len(); n > 0 {
		var us []string
		for i := 0; i < n; i++ {
			us = append(us, "_")
		}
		results = strings.Join(us, ", ") + " = "
	}
	imports := map[string]bool{"testing": true, "fmt": true}
	body := g.sb.String()
	if strings.Contains(body, "strings.Repeat") || strings.Contains(call, "strings.Repeat") {
		imports["strings"] = true
	}
	for _, imp := range pkg.Imports() {
		if strings.Contains(body, imp.Name()+".") || strings.Contains(call, imp.Name()+".") {
			imports[imp.Path()] = true
		}
	}
	var ib []string
	for k := range imports {
		ib = append(ib, strconv.Quote(k))
	}
	sort.Strings(ib)
	src := fmt.Sprintf(`// Code generated by govc replay for obligation %s. DO NOT EDIT.

package %s

import (
	%s
)

func TestGovcReplay(t *testing.T) {
	defer func() {
		if r := recover(); r != nil {
			fmt.Printf("GOVC-REPLAY: PANIC %%v\n", r)
			return
		}
		fmt.Println("GOVC-REPLAY: returned normally")
	}()
%s	%s%s
}
`, o.Name, pkg.Name(), strings.Join(ib, "\n\t"), body, results, call)
	testFile := filepath.Join(dir, base+"_test.go")
	os.WriteFile(testFile, []byte(src), 0644)
	rf.TestFile = testFile
	rf.ReplayKind = "R1 direct (go test -overlay, in-package)"
	out, panicked := runReplayTest(testFile, pkg.Path())
	rf.TestOutput = truncStr(out, 4000)
	return panicked
}

// runReplayTest runs the generated test against /repo through an overlay.
func runReplayTest(testFile, pkgPath string) (string, bool) {
	modDir, rel := moduleOf(pkgPath)
	if modDir == "" {
		return "cannot locate package " + pkgPath, false
	}
	target := filepath.Join(modDir, rel, "zz_govc_replay_test.go")
	ov := map[string]map[string]string{"Replace": {target: testFile}}
	ovData, _ := json.Marshal(ov)
	ovFile := testFile + ".overlay.json"
	os.WriteFile(ovFile, ovData, 0644)
	ctx, cancel := context.WithTimeout(context.Background(), 120*time.Second)
	defer cancel()
	cmd := exec.CommandContext(ctx, "go", "test", "-overlay", ovFile, "-tags", "verif", "-vet=off", "-count=1", "-v", "-timeout", "60s", "-run", "^TestGovcReplay$", "./"+rel)
	cmd.Dir = modDir
	cmd.Env = append(os.Environ(), "GOFLAGS=-mod=mod", "GOPROXY=off", "GOSUMDB=off", "GOTOOLCHAIN=local")
	out, _ := cmd.CombinedOutput()
	s := string(out)
	return s, strings.Contains(s, "GOVC-REPLAY: PANIC") || strings.Contains(s, "panic:") || strings.Contains(s, "test timed out")
}

func moduleOf(pkgPath string) (dir, rel string) {
	repo := "/repo"
	if rd := os.Getenv("VERIF_REPO"); rd != "" {
		repo = rd
	}
	const root = "golang.org/x/telemetry"
	switch {
	case strings.HasPrefix(pkgPath, root+"/godev"):
		return filepath.Join(repo, "godev"), strings.TrimPrefix(strings.TrimPrefix(pkgPath, root+"/godev"), "/")
	case strings.HasPrefix(pkgPath, root):
		return repo, strings.TrimPrefix(strings.TrimPrefix(pkgPath, root), "/")
	}
	return "", ""
}

var _ = ssa.NaiveForm
