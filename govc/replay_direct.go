package main

// R1 direct replay: build an in-package Go test from the solver's model and run the real function.

func (cr *checkRun) replayDirect(r *ProofResult, o *Obligation, rf *ReplayFile, dir, base string) bool {
	return false
}

func runReplayTest(testFile, fn string) (string, bool) { return "", false }
