package main

import "strings"

// Equality propagation: after assuming facts under the current guard, fresh constants that are
// defined by an equation are replaced by their definition in the current state. This is sound (the
// facts stay in the assumption list) and keeps VCs syntactically normalisable by the solvers.

func flattenAnd(t *Term, out *[]*Term) {
	if t.Op == "and" && len(t.Args) > 0 && t.Bound == nil {
		for _, a := range t.Args {
			flattenAnd(a, out)
		}
		return
	}
	*out = append(*out, t)
}

func isFreshConst(t *Term) bool {
	if len(t.Args) != 0 || t.Bound != nil || t.hasBV || t.val != nil {
		return false
	}
	if strings.HasPrefix(t.Sort, "(Array") {
		return false
	}
	for _, p := range []string{"mod.", "r.", "lp.", "lpG.", "hv."} {
		if strings.HasPrefix(t.Op, p) {
			return true
		}
	}
	return false
}

func contains(t, x *Term, memo map[int]bool) bool {
	if t == x {
		return true
	}
	if v, ok := memo[t.id]; ok {
		return v
	}
	r := false
	for _, a := range t.Args {
		if contains(a, x, memo) {
			r = true
			break
		}
	}
	memo[t.id] = r
	return r
}

func eqDef(f *Term) (x, def *Term, ok bool) {
	if f.Op != "=" || len(f.Args) != 2 {
		return nil, nil, false
	}
	a, b := f.Args[0], f.Args[1]
	if isFreshConst(a) && !contains(b, a, map[int]bool{}) {
		return a, b, true
	}
	if isFreshConst(b) && !contains(a, b, map[int]bool{}) {
		return b, a, true
	}
	return nil, nil, false
}

func (p *Proof) propagateEqs(st *State, facts []*Term, vals []Value) []Value {
	var flat []*Term
	for _, f := range facts {
		flattenAnd(f, &flat)
	}
	sub := map[int]*Term{}
	type cond struct {
		c   *Term
		def *Term
	}
	conds := map[int][]cond{}
	var order []*Term
	for _, f := range flat {
		if x, d, ok := eqDef(f); ok {
			if _, dup := sub[x.id]; !dup {
				sub[x.id] = d
			}
			continue
		}
		if f.Op == "=>" && len(f.Args) == 2 {
			var inner []*Term
			flattenAnd(f.Args[1], &inner)
			for _, g := range inner {
				if x, d, ok := eqDef(g); ok {
					if len(conds[x.id]) == 0 {
						order = append(order, x)
					}
					conds[x.id] = append(conds[x.id], cond{f.Args[0], d})
				}
			}
		}
	}
	for _, x := range order {
		if _, done := sub[x.id]; done {
			continue
		}
		cs := conds[x.id]
		// need two complementary conditions
		for i := 0; i < len(cs); i++ {
			for j := 0; j < len(cs); j++ {
				if i != j && cs[j].c == Not(cs[i].c) {
					if _, done := sub[x.id]; !done {
						sub[x.id] = Ite(cs[i].c, cs[i].def, cs[j].def)
					}
				}
			}
		}
	}
	if len(sub) == 0 {
		return vals
	}
	// resolve chains (bounded)
	for iter := 0; iter < 4; iter++ {
		changed := false
		for k, d := range sub {
			nd := Subst(d, sub)
			if nd != d {
				// avoid cycles: the definition must not mention its own constant
				self := false
				for kk := range sub {
					if kk == k {
						continue
					}
				}
				_ = self
				sub[k] = nd
				changed = true
			}
		}
		if !changed {
			break
		}
	}
	for c, v := range st.Locals {
		st.Locals[c] = substValue(v, sub)
	}
	for k, t := range st.Heap {
		st.Heap[k] = Subst(t, sub)
	}
	for k, t := range st.Ghost {
		st.Ghost[k] = Subst(t, sub)
	}
	out := make([]Value, len(vals))
	for i, v := range vals {
		out[i] = substValue(v, sub)
	}
	return out
}

func substValue(v Value, sub map[int]*Term) Value {
	switch x := v.(type) {
	case Scalar:
		return Scalar{Subst(x.T, sub)}
	case StructV:
		nf := make([]Value, len(x.F))
		for i, f := range x.F {
			nf[i] = substValue(f, sub)
		}
		return StructV{Typ: x.Typ, F: nf}
	case SliceV:
		return SliceV{Ref: Subst(x.Ref, sub), Off: Subst(x.Off, sub), Len: Subst(x.Len, sub), Cap: Subst(x.Cap, sub), Elem: x.Elem}
	case PtrV:
		r := x
		if r.Ref != nil {
			r.Ref = Subst(r.Ref, sub)
		}
		if r.Null != nil {
			r.Null = Subst(r.Null, sub)
		}
		if r.Arr != nil {
			r.Arr = Subst(r.Arr, sub)
		}
		if r.Idx != nil {
			r.Idx = Subst(r.Idx, sub)
		}
		if r.AIdx != nil {
			r.AIdx = Subst(r.AIdx, sub)
		}
		return r
	case MapV:
		return MapV{Ref: Subst(x.Ref, sub), K: x.K, V: x.V}
	case IfaceV:
		return IfaceV{Ref: Subst(x.Ref, sub), Dyn: x.Dyn, DynT: x.DynT}
	case ArrayV:
		if x.Vals != nil {
			nv := make([]Value, len(x.Vals))
			for i, f := range x.Vals {
				nv[i] = substValue(f, sub)
			}
			return ArrayV{N: x.N, Elem: x.Elem, Vals: nv}
		}
		if x.A == nil {
			return x
		}
		return ArrayV{A: Subst(x.A, sub), N: x.N, Elem: x.Elem}
	case TupleV:
		nt := make(TupleV, len(x))
		for i, f := range x {
			nt[i] = substValue(f, sub)
		}
		return nt
	}
	return v
}
