#!/bin/bash
# thorough tier of one property:
#  1. every claimed obligation with all three solvers (agreement required) and three times the time limit;
#  2. the property's must-fail / must-pass self-test edits, applied to a scratch copy of /repo's CURRENT
#     working tree outside /repo and /verif (removed afterwards); the result is added to the evidence file.
#     Edits are started for at most SELFTEST_BUDGET_S seconds (default 1500); the ones not run are listed.
# The exit status is that of step 1: a surviving self-test mutant is a hole in the check, not a violation of
# the property on this tree; it is printed as SELFTEST-SURVIVOR and recorded in the evidence.
ID="$1"
cd /verif || exit 2
bin/govc check -prop "$ID" -tier thorough
rc=$?
T=$(mktemp -d "${TMPDIR:-/var/tmp}/govc-selftest-XXXXXX") || exit $rc
trap 'rm -rf "$T"' EXIT
rsync -a /repo/ "$T/repo/" 2>/dev/null
if [ -d "$T/repo/.git" ]; then
  # commit the copied working tree in the scratch copy so that each edit can be undone with git checkout
  (cd "$T/repo" && git add -A >/dev/null 2>&1 && git -c user.name=selftest -c user.email=selftest@localhost commit -qm "scratch: working tree under test" >/dev/null 2>&1)
  mkdir -p /verif/work
  VERIF_REPO="$T/repo" SELFTEST_LENIENT=1 SELFTEST_BUDGET_S="${SELFTEST_BUDGET_S:-1500}" python3 tools_selftest.py "$ID" --json "/verif/work/selftest_$ID.json" > "/verif/work/selftest_$ID.log" 2>&1
  grep -E "SURVIVED|ALARM" "/verif/work/selftest_$ID.log" | sed 's/^/SELFTEST-SURVIVOR /'
  tail -1 "/verif/work/selftest_$ID.log" | sed 's/^/selftest: /'
  if [ -f "/verif/work/selftest_$ID.json" ] && [ -f "/verif/evidence/$ID.json" ]; then
    python3 - "$ID" <<'PY'
import json,sys
i=sys.argv[1]
ev=json.load(open(f"/verif/evidence/{i}.json")); st=json.load(open(f"/verif/work/selftest_{i}.json"))
ev["coverage"]["selftest_on_scratch_copy"]=st
json.dump(ev,open(f"/verif/evidence/{i}.json","w"),indent=1)
PY
  fi
fi
exit $rc
